#!/usr/bin/env python3
"""usage: addclaim.py Cnn <<< JSON {"category":..., "text":..., "note":...}   (rewrites claims.py, then MANIFEST.json)"""
import sys, json, importlib.util, subprocess, os
ROOT = os.path.dirname(os.path.abspath(__file__))
spec = importlib.util.spec_from_file_location('c', os.path.join(ROOT, 'claims.py')); m = importlib.util.module_from_spec(spec); spec.loader.exec_module(m)
claims = dict(m.CLAIMS)
claims[sys.argv[1]] = json.load(sys.stdin)
out = ['"""Per-property claims (source of MANIFEST.json)."""', 'CLAIMS = {']
for k in sorted(claims):
    c = claims[k]
    out.append(" %r: dict(category=%r,\n   text=%r,\n   note=%r),\n" % (k, c['category'], c['text'], c['note']))
out.append('}')
out.append("_ALL = ['C%02d' % i for i in range(1, 21)]")
out.append("NOT_APPLICABLE = {p: 'check not built yet in this session (planned, see DESIGN.md section 7); not a statement about the technique' for p in _ALL if p not in CLAIMS}")
open(os.path.join(ROOT, 'claims.py'), 'w').write('\n'.join(out) + '\n')
subprocess.run([sys.executable, os.path.join(ROOT, 'mkmanifest.py')])
