#!/bin/bash
# usage: seedsweep.sh <results.tsv> <seed-id>...   -- applies each seeded patch to a scratch worktree of /repo (at /repo's HEAD), runs the quick
# check of its property against that tree (FRGV_REPO), appends "<seed>\t<outcome>\t<obligation>\t<message>" and reverts.
out=$1; shift
cd /verif
mkdir -p /tmp/seed
H=$(git -C /repo rev-parse HEAD)
for s in "$@"; do
  p=${s%%-*}
  wt=/tmp/seed/$p
  [ -d $wt ] || git -C /repo worktree add -q --detach $wt HEAD   # scratch worktree outside /repo and /verif; remove with: git -C /repo worktree remove --force $wt
  git -C $wt checkout -q -- . 2>/dev/null; git -C $wt checkout -q --detach $H 2>/dev/null
  if ! git -C $wt apply /verif/seeded/$s/patch.diff 2>/dev/null; then printf "%s\tpatch does not apply to the repaired tree\t-\t-\n" $s >> $out; continue; fi
  res=$(FRGV_REPO=$wt timeout 3400 python3 vp.py check $p --tier quick 2>&1); rc=$?
  first=$(echo "$res" | grep -m1 '^VIOLATION\|^TOOL-FAILURE')
  ob=$(echo "$first" | sed -n 's/.*obligation=\([^ ]*\).*/\1/p'); msg=$(echo "$first" | sed -n 's/.*obligation=[^ ]* *\(.*\)/\1/p' | cut -c1-160)
  case $rc in 1) o="caught (exit 1, $(echo "$res" | grep -c '^VIOLATION') obligations fail)";; 0) o="MISSED (exit 0)";; *) o="undecided (exit $rc, tool failure)"; [ -z "$msg" ] && msg=$(echo "$first" | cut -c1-160);; esac
  printf "%s\t%s\t%s\t%s\n" "$s" "$o" "${ob:--}" "${msg:--}" >> $out
  git -C $wt checkout -q -- .
done
