#!/bin/bash
# usage: seedsweep.sh <out-file> <seed-id>...   -- applies each seeded patch to a scratch worktree of /repo, runs the quick check of its
# property against that tree (FRGV_REPO), records the outcome, reverts. Evidence/replays of these runs go to build/*_scratch.
out=$1; shift
cd /verif
for s in "$@"; do
  p=${s%-*}
  wt=/tmp/seed/$p
  git -C $wt checkout -q -- . 2>/dev/null
  if ! git -C $wt apply /verif/seeded/$s/patch.diff 2>/dev/null; then echo "$s apply-failed" >> $out; continue; fi
  t0=$(date +%s)
  res=$(FRGV_REPO=$wt timeout 3000 python3 vp.py check $p --tier quick 2>&1)
  rc=$?
  t1=$(date +%s)
  nv=$(echo "$res" | grep -c '^VIOLATION')
  first=$(echo "$res" | grep -m1 '^VIOLATION\|^TOOL-FAILURE' | cut -c1-300)
  echo "$s rc=$rc violations=$nv time=$((t1-t0))s :: $first" >> $out
  git -C $wt checkout -q -- .
done
