#!/bin/bash
# Regenerate the evidence of every claimed property on the unchanged tree (quick tier).
cd "$(dirname "$0")"
for p in $(python3 -c "import json; print(' '.join(c['property_id'] for c in json.load(open('MANIFEST.json'))['checks']))"); do
  python3 vp.py check $p --tier quick 2>&1 | tail -1
done
