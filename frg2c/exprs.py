"""Expression lowering (mixin for FuncLower)."""
import re
from .astload import ExtractError, exploc
from .ctypes_ import cdecl, is_ref, strip_ref
from .lower import E, addr, deref, sanitize, ATOMIC_METHODS

def kids(n):
    return [c for c in n.get('inner', ())]

INT_SUFFIX = {'int': '', 'unsigned int': 'U', 'long': 'L', 'unsigned long': 'UL', 'long long': 'LL',
              'unsigned long long': 'ULL'}

PASS_THROUGH = ('ParenExpr', 'ExprWithCleanups', 'CXXBindTemporaryExpr', 'SubstNonTypeTemplateParmExpr',
                'ConstantExpr', 'FullExpr')

STD_IDENTITY = {'move', 'forward', 'launder', 'as_const', 'forward_like', 'move_if_noexcept'}

class ExprMixin:
    # ------------------------------------------------------------------ entry points
    def expr(self, n, want_lvalue=False, discard=False):
        """lower expression n; returns E. For class prvalues a temporary is materialised."""
        k = n.get('kind')
        m = getattr(self, 'ex_' + k, None)
        if m is None:
            self.err(n, 'unsupported expression kind')
        return m(n)

    def is_class_prvalue(self, n):
        if n.get('valueCategory') != 'prvalue':
            return None
        t = self.ty(n)
        if is_ref(t):
            return None
        return self.L.rec_of_type(t)

    def new_temp(self, t, with_dtor=True):
        nm = self.uniq(self.tmp())
        self.hoist('%s;' % cdecl(t, nm))
        if self.L.rec_of_type(t) is not None and not is_ref(t):
            self.hoist('FRGV_RAW_STORAGE(%s);' % nm)
        return nm

    def materialize(self, n, t=None):
        """evaluate class prvalue n into a fresh temporary, schedule its destructor; returns lvalue E"""
        t = t or self.ty(n)
        nm = self.new_temp(t)
        self.expr_into(n, '(&%s)' % nm)
        self.destroy_object(nm, t, emit=self.post.append)
        return E(nm)

    # ------------------------------------------------------------------ construct into a destination
    def expr_into(self, n, dest):
        """evaluate class-typed expression n, constructing the result in *dest (dest: C pointer text)"""
        L = self.L
        k = n.get('kind')
        if k in PASS_THROUGH or k in ('MaterializeTemporaryExpr',):
            cs = [c for c in kids(n) if c]
            return self.expr_into(cs[-1], dest)
        if k in ('ImplicitCastExpr', 'CXXFunctionalCastExpr', 'CStyleCastExpr', 'CXXStaticCastExpr') and \
                n.get('castKind') in ('NoOp', 'ConstructorConversion', 'UserDefinedConversion'):
            cs = [c for c in kids(n) if c]
            return self.expr_into(cs[-1], dest)
        if k in ('CXXConstructExpr', 'CXXTemporaryObjectExpr'):
            return self.construct_into(n, dest)
        if k in ('CallExpr', 'CXXMemberCallExpr', 'CXXOperatorCallExpr'):
            return self.call(n, dest=dest)
        if k == 'InitListExpr':
            return self.initlist_into(n, dest)
        if k == 'ConditionalOperator':
            c, a, b = kids(n)
            ce = self.expr(c)
            self.hoist('if (%s) {' % ce.s)
            self._sub_into(a, dest)
            self.hoist('} else {')
            self._sub_into(b, dest)
            self.hoist('}')
            return
        if k == 'LambdaExpr':
            return self.lambda_into(n, dest)
        if k == 'CXXDefaultArgExpr' or k == 'CXXDefaultInitExpr':
            return self.expr_into(self.default_expr(n), dest)
        if k == 'BinaryOperator' and n.get('opcode') == ',':
            a, b = kids(n)
            e = self.expr(a, discard=True)
            if e is not None and e.s:
                self.hoist('%s;' % e.s)
            return self.expr_into(b, dest)
        if k == 'ImplicitValueInitExpr' or k == 'CXXScalarValueInitExpr':
            self.hoist('memset(%s, 0, sizeof(*%s));' % (dest, dest))
            return
        if k == 'StmtExpr':
            self.err(n, 'statement expression')
        # glvalue or anything producing a value usable in C: bitwise copy
        e = self.expr(n)
        self.hoist('*%s = %s;' % (dest, e.s))

    def _sub_into(self, n, dest):
        saved_pre, saved_post = self.pre, self.post
        self.pre, self.post = [], []
        self.expr_into(n, dest)
        inner_pre, inner_post = self.pre, self.post
        self.pre, self.post = saved_pre, saved_post
        for s in inner_pre:
            self.pre.append('\t' + s)
        for s in reversed(inner_post):
            self.pre.append('\t' + s)

    def find_ctor(self, rec, n):
        L = self.L
        want = n.get('ctorType', {}).get('qualType')
        cands = [m for m in rec.methods if m.get('kind') == 'CXXConstructorDecl']
        hit = [m for m in cands if m.get('type', {}).get('qualType') == want]
        if not hit:
            # compare canonically
            try:
                wt = L.ty(want)
                hit = [m for m in cands if L.ty(m['type']) == wt]
            except ExtractError:
                hit = []
        # prefer instantiated bodies
        hit.sort(key=lambda m: 0 if any(c.get('kind') == 'CompoundStmt' for c in m.get('inner', ())) else 1)
        return hit[0] if hit else None

    def construct_into(self, n, dest):
        L = self.L
        t = self.ty(n)
        while t[0] == 'arr':
            t = t[1]      # element-wise construction: dest points at one element (see init_array)
        rec = L.rec_of_type(t)
        args = [c for c in kids(n) if c]
        if rec is None and t[0] == 'base' and t[2].get('empty_std'):
            return
        if rec is None:
            # std::atomic<T> members lower to plain T (sequential model): construction is initialisation
            if 'atomic' in (n.get('type', {}).get('qualType', '')):
                if not args:
                    self.hoist('*%s = 0;' % dest)
                    return
                if len(args) == 1:
                    e = self.expr(args[0])
                    self.hoist('*%s = %s;' % (dest, e.s))
                    return
            self.err(n, 'constructor of non-record type')
        ctor = self.find_ctor(rec, n)
        trivial_copy = False
        if ctor is None:
            # implicit trivial constructor that clang never declared
            if not args:
                if n.get('zeroing'):
                    self.hoist('memset(%s, 0, sizeof(*%s));' % (dest, dest))
                return
            if len(args) == 1:
                trivial_copy = True
            else:
                self.err(n, 'constructor %r not found in %s' % (n.get('ctorType'), rec.printed))
        else:
            f = L.func_of(ctor['id'])
            has_body = f.body is not None
            defaulted = bool(ctor.get('isImplicit') or ctor.get('explicitlyDefaulted'))
            if not has_body and defaulted:
                sk = L._sig_kind(f)
                if sk in ('copy', 'move'):
                    if rec.dd.get(sk + 'Ctor', {}).get('trivial') or L.regpass(rec):
                        trivial_copy = True
                    else:
                        self.err(n, 'non-trivial defaulted %s constructor of %s was not instantiated' % (sk, rec.printed))
                elif sk == 'default':
                    if n.get('zeroing'):
                        self.hoist('memset(%s, 0, sizeof(*%s));' % (dest, dest))
                    if rec.dd.get('defaultCtor', {}).get('trivial'):
                        return
                    self.err(n, 'non-trivial defaulted default constructor of %s was not instantiated' % rec.printed)
        if trivial_copy:
            a = args[0]
            if self.is_class_prvalue(self._unwrap(a)) is not None and n.get('elidable'):
                return self.expr_into(a, dest)
            if a.get('valueCategory') == 'prvalue' and self.is_class_prvalue(a) is not None:
                return self.expr_into(a, dest)
            e = self.expr(a)
            self.hoist('*%s = %s;' % (dest, e.s))
            return
        if n.get('elidable') and len(args) == 1:
            u = self._unwrap(args[0])
            if self.is_class_prvalue(u) is rec:
                return self.expr_into(u, dest)
        if n.get('zeroing'):
            self.hoist('memset(%s, 0, sizeof(*%s));' % (dest, dest))
        L.need_func(f)
        argv = self.call_args(f, args, n)
        self.hoist('%s(%s);' % (f.cname, ', '.join([dest] + argv)))

    def _unwrap(self, n):
        while n.get('kind') in PASS_THROUGH + ('MaterializeTemporaryExpr',) or (
                n.get('kind') == 'ImplicitCastExpr' and n.get('castKind') == 'NoOp'):
            cs = [c for c in kids(n) if c]
            if not cs:
                break
            n = cs[-1]
        return n

    def initlist_into(self, n, dest):
        L = self.L
        t = self.ty(n)
        rec = L.rec_of_type(t)
        items = [c for c in kids(n) if c]
        if rec is None:
            self.err(n, 'init list for non-record')
        if len(items) == 1 and not is_ref(self.ty(items[0])) and self.L.rec_of_type(self.ty(items[0])) is rec:
            # T{expr-of-type-T}: copy/move initialisation, not aggregate initialisation
            return self.expr_into(items[0], dest)
        if rec.is_union:
            if items:
                fd = n.get('field')
                fname = None
                if fd:
                    fname, ft = self.field_of(rec, fd['id'])
                else:
                    fname, _, ft = rec.fields[0]
                self._init_sub(E('%s->%s' % (dest, fname)), ft, items[0])
            return
        slots = []
        for br, bf in rec.bases:
            slots.append(('base', br, bf))
        for fname, fn, ft in rec.fields:
            slots.append(('field', fname, ft))
        if len(items) > len(slots):
            self.err(n, 'too many initializers')
        for it, sl in zip(items, slots):
            if it.get('kind') == 'CXXDefaultInitExpr' and sl[0] == 'field':
                for fl in rec.fields:
                    if fl[0] == sl[1]:
                        it = self.field_default_init(rec, fl[1]['id'], it)
            if sl[0] == 'base':
                br, bf = sl[1], sl[2]
                p = '(&%s->%s)' % (dest, bf) if bf else '((struct %s *)%s)' % (br.cname, dest)
                self.expr_into(it, p)
            else:
                self._init_sub(E('%s->%s' % (dest, sl[1])), sl[2], it)

    def _init_sub(self, target, t, init):
        """like init_object but inside an expression (hoists)"""
        L = self.L
        if is_ref(t):
            e = self.expr(init, want_lvalue=True)
            self.hoist('%s = %s;' % (target.s, addr(e)))
        elif L.rec_of_type(t) is not None:
            self.expr_into(init, addr(target))
        elif t[0] == 'arr':
            saved = self.lines
            self.lines = []
            saved_ind = self.ind
            self.ind = 0
            self.init_array(target, t, init)
            out = self.lines
            self.lines = saved
            self.ind = saved_ind
            for s in out:
                self.hoist(s)
        else:
            e = self.expr(init)
            self.hoist('%s = %s;' % (target.s, e.s))

    def lambda_into(self, n, dest):
        L = self.L
        cs = kids(n)
        rec = L.records.get(cs[0]['id'])
        if rec is None:
            self.err(n, 'lambda closure record unknown')
        L.need_record(rec)
        inits = [c for c in cs[1:] if c and c.get('kind') != 'CompoundStmt']
        if len(inits) != len(rec.fields):
            self.err(n, 'lambda capture count mismatch (%d vs %d)' % (len(inits), len(rec.fields)))
        for (fname, fn, ft), init in zip(rec.fields, inits):
            self._init_sub(E('%s->%s' % (dest, fname)), ft, init)

    def default_expr(self, n):
        """expression a CXXDefaultArgExpr / CXXDefaultInitExpr stands for"""
        cs = [c for c in kids(n) if c]
        if cs:
            return cs[0]
        self.err(n, 'default argument/initializer expression not available')

    # ------------------------------------------------------------------ literals
    def ex_IntegerLiteral(self, n):
        t = self.ty(n)
        suf = INT_SUFFIX.get(t[1], '') if t[0] == 'base' else ''
        return E('%s%s' % (n['value'], suf))

    def ex_CharacterLiteral(self, n):
        t = self.ty(n)
        return E('((%s)%d)' % (cdecl(t), n['value']))

    def ex_CXXBoolLiteralExpr(self, n):
        return E('1' if n.get('value') else '0')

    def ex_CXXNullPtrLiteralExpr(self, n):
        return E('((void *)0)')

    def ex_GNUNullExpr(self, n):
        return E('((void *)0)')

    def ex_StringLiteral(self, n):
        return E(n['value'])

    def ex_FloatingLiteral(self, n):
        return E(str(n['value']))

    def ex_PredefinedExpr(self, n):
        return E('"%s"' % self.f.node.get('name', ''))

    def ex_SourceLocExpr(self, n):
        return E('0')

    def ex_ImplicitValueInitExpr(self, n):
        t = self.ty(n)
        rec = self.L.rec_of_type(t)
        if rec is not None:
            return E('((%s){0})' % cdecl(t))
        return E('((%s)0)' % cdecl(t))

    ex_CXXScalarValueInitExpr = ex_ImplicitValueInitExpr

    def ex_TypeTraitExpr(self, n):
        if 'value' in n:
            return E('1' if n['value'] in (True, 'true') else '0')
        self.err(n, 'type trait without folded value')

    def ex_CXXNoexceptExpr(self, n):
        return E('1' if n.get('value') in (True, 'true') else '0')

    def ex_SizeOfPackExpr(self, n):
        """sizeof...(Pack) in an instantiation: the pack length is read off the enclosing specialization"""
        L = self.L
        cands = []
        node = self.f.node
        while node is not None:
            packs = [a for a in node.get('inner', ()) if a.get('kind') == 'TemplateArgument' and a.get('isPack')]
            for a in packs:
                cands.append(len([c for c in a.get('inner', ()) if c.get('kind') == 'TemplateArgument']))
            if packs:
                break
            pid = node.get('parentDeclContextId')
            node = L.ix.by_id.get(pid) if pid in L.ix.by_id else L.ix.parent.get(node.get('id'))
        if len(cands) == 1:
            return E('((size_t)%d)' % cands[0])
        self.err(n, 'sizeof...(%s): cannot determine the pack length (%d candidate packs)' % (n.get('name'), len(cands)))

    def ex_ConceptSpecializationExpr(self, n):
        self.err(n, 'concept check outside constant expression')

    def ex_RequiresExpr(self, n):
        self.err(n, 'requires-expression outside constant expression')

    # ------------------------------------------------------------------ wrappers
    def ex_ParenExpr(self, n):
        e = self.expr(kids(n)[0])
        return E('(%s)' % e.s, e.ptr)

    def ex_ConstantExpr(self, n):
        t = self.ty(n)
        if 'value' in n and t[0] == 'base' and t[2].get('kind') in ('builtin', 'enum'):
            v = str(n['value'])
            if re.match(r'^-?\d+$', v):
                if t[1] == '_Bool':
                    return E(v)
                return E('((%s)%s%s)' % (cdecl(t), v, 'ULL' if not v.startswith('-') and int(v) > 2**31 else
                                          ('LL' if v.startswith('-') and int(v) < -2**31 else '')))
        return self.expr(kids(n)[0])

    def ex_ExprWithCleanups(self, n):
        return self.expr(kids(n)[0])

    ex_FullExpr = ex_ExprWithCleanups

    def ex_CXXBindTemporaryExpr(self, n):
        return self.expr(kids(n)[0])

    def ex_SubstNonTypeTemplateParmExpr(self, n):
        cs = [c for c in kids(n) if c]
        return self.expr(cs[-1])

    def ex_OpaqueValueExpr(self, n):
        if n['id'] in self.opaque:
            return self.opaque[n['id']]
        cs = [c for c in kids(n) if c]
        if cs:
            return self.expr(cs[0])
        self.err(n, 'unbound opaque value')

    def ex_ArrayInitIndexExpr(self, n):
        return E(self.array_index[-1])

    def ex_CXXDefaultArgExpr(self, n):
        return self.expr(self.default_expr(n))

    ex_CXXDefaultInitExpr = ex_CXXDefaultArgExpr

    def ex_MaterializeTemporaryExpr(self, n):
        c = kids(n)[0]
        lam = self._find_lambda(c)
        if lam is not None:
            return self.ex_LambdaExpr(lam)
        t = self.ty(n)
        rec = self.L.rec_of_type(t)
        if rec is not None and t[0] == 'base':
            return self.materialize(c, t)
        # scalar / pointer / array temporary bound to a reference
        e = self.expr(c)
        nm = self.new_temp(t)
        self.hoist('%s = %s;' % (nm, e.s))
        return E(nm)

    # ------------------------------------------------------------------ names
    def ex_DeclRefExpr(self, n):
        L = self.L
        rd = n['referencedDecl']
        i = rd['id']
        k = rd.get('kind')
        if i in self.locals:
            nm, t, isref = self.locals[i]
            if isref:
                return deref(nm)
            return E(nm)
        cap = self.captured(i)
        if cap is not None:
            return cap
        if k == 'EnumConstantDecl':
            return E(self.enum_constant(rd))
        if k in ('FunctionDecl', 'CXXMethodDecl'):
            f = L.func_of(i)
            if f is None:
                nm = rd.get('name')
                if nm and nm.startswith('__builtin_'):
                    return E(nm)
                self.err(n, 'reference to unknown function %s' % nm)
            L.need_func(f)
            return E(f.cname)
        if k == 'VarDecl':
            return self.global_var(n, rd)
        if k == 'VarTemplateSpecializationDecl':
            return self.var_template_constant(n, rd)
        if k == 'BindingDecl':
            self.err(n, 'structured binding')
        if k == 'ParmVarDecl':
            # parameter of an enclosing function referenced from a default argument etc.
            self.err(n, 'reference to parameter %s of another function' % rd.get('name'))
        self.err(n, 'unsupported DeclRefExpr to %s' % k)

    def var_template_constant(self, n, rd):
        """a constant use of a variable template specialisation (std::tuple_size_v<T>, ...): clang's JSON names the variable but not its
        template arguments, so the expression is read back from the source, the enclosing function template's parameters are replaced
        by this instantiation's arguments, and the real compiler evaluates it (constant probe)"""
        from .astload import source_text, spellloc
        L = self.L
        if n.get('nonOdrUseReason') != 'constant':
            self.err(n, 'variable template specialisation %s used as an object' % rd.get('name'))
        rg = n.get('range', {})
        f, _, b = spellloc(rg.get('begin')); f2, _, e = spellloc(rg.get('end'))
        if not f or b is None or e is None or f != f2:
            self.err(n, 'variable template reference without a source range')
        raw = source_text(f, b, e + 256).decode(errors='replace')
        # the range ends at the start of the last token: extend to the matching '>' of the template-id
        pos = e - b
        depth = 0; end = None
        for i, ch in enumerate(raw):
            if ch == '<': depth += 1
            elif ch == '>':
                depth -= 1
                if depth == 0 and i >= pos: end = i + 1; break
            elif ch in ';{}' : break
        text = raw[:end] if end else raw[:pos + len(rd.get('name', ''))]
        # template parameter -> argument map of the enclosing instantiation
        fn = self.f.node
        targs = L._print_targs([c for c in fn.get('inner', ()) if c.get('kind') == 'TemplateArgument' and not c.get('isPack')])
        tpl = L.ix.parent.get(fn['id'])
        names = []
        if tpl is not None and tpl.get('kind') == 'FunctionTemplateDecl':
            for c in tpl.get('inner', ()):
                if c.get('kind') in ('TemplateTypeParmDecl', 'NonTypeTemplateParmDecl') and not c.get('isParameterPack'):
                    names.append(c.get('name'))
        for nm, arg in zip(names, targs):
            if nm:
                text = re.sub(r'(?<![A-Za-z_0-9:])%s(?![A-Za-z_0-9])' % re.escape(nm), arg, text)
        if re.search(r'(?<![A-Za-z_0-9:])(%s)(?![A-Za-z_0-9])' % '|'.join(re.escape(x) for x in names if x), text) if names else False:
            self.err(n, 'could not substitute template parameters in %r' % text)
        cname = 'frgv_vt_' + re.sub(r'[^A-Za-z0-9]+', '_', text).strip('_')
        if not hasattr(L, 'global_text'):
            L.global_text = {}
        if cname not in L.global_text:
            L.probe_consts[cname] = text
            t = L.ty(n['type'])
            from .ctypes_ import cdecl
            L.global_text[cname] = 'static const %s %s = @@CONST:%s@@;' % (cdecl(t).replace('const ', ''), cname, cname)
            L.globals['vt_' + cname] = (cname, n)
        return E(cname)

    def enum_constant(self, rd):
        L = self.L
        full = L.ix.by_id.get(rd['id'])
        if full is None:
            nm = rd.get('name', '')
            if nm.startswith('memory_order'):
                return 'FRGV_' + nm.upper()
            raise ExtractError('%s: enum constant %s not in AST' % (self.f.cname, nm))
        p = L.ix.parent.get(rd['id'])
        if p is None or p['id'] not in L.enums:
            raise ExtractError('enum of constant %s unknown' % rd.get('name'))
        L.used_enums[p['id']] = True
        cname = L.enums[p['id']][0]
        return '%s_%s' % (cname, rd['name'])

    def global_var(self, n, rd):
        L = self.L
        full = L.ix.by_id.get(rd['id'])
        if full is None:
            if rd.get('name', '').startswith('memory_order_'):
                return E('FRGV_' + rd['name'].upper())
            self.err(n, 'reference to global %s outside the AST filter' % rd.get('name'))
        g = L.global_of(full)
        t = L.ty(full['type'])
        if is_ref(t):
            return deref(g)
        return E(g)

    def ex_CXXThisExpr(self, n):
        rec = self.f.rec
        if rec is not None and rec.is_lambda:
            # inside a lambda body 'this' always denotes the captured enclosing object
            cap = self.captured('this')
            if cap is None:
                self.err(n, "'this' used in a lambda that does not capture it")
            return cap
        return E('this')

    def captured(self, key):
        """lvalue for a captured entity inside a lambda's operator()"""
        rec = self.f.rec
        if rec is None or not rec.is_lambda:
            return None
        k = getattr(rec, 'captures', {}).get(key)
        if k is None:
            return None
        fname, fn, ft = rec.fields[k]
        if is_ref(ft):
            return deref('this->%s' % fname)
        return E('this->%s' % fname)

    def ex_MemberExpr(self, n):
        L = self.L
        base = kids(n)[0]
        mid = n.get('referencedMemberDecl')
        md = L.ix.by_id.get(mid)
        if md is None:
            self.err(n, 'member %s not in AST' % n.get('name'))
        mk = md.get('kind')
        if mk == 'VarDecl':
            # static data member accessed through an object
            be = self.expr(base, discard=True)
            return self.global_var(n, md)
        if mk in ('CXXMethodDecl', 'CXXConversionDecl', 'CXXDestructorDecl'):
            self.err(n, 'bound member function outside a call')
        if mk == 'EnumConstantDecl':
            return E(self.enum_constant(md))
        if mk != 'FieldDecl':
            self.err(n, 'member of kind %s' % mk)
        be = self.expr(base)
        prec = L.records.get(L.ix.parent.get(mid, {}).get('id'))
        if prec is None:
            self.err(n, 'record of field %s unknown' % n.get('name'))
        L.need_record(prec)
        fname, ft = self.field_of(prec, mid)
        hooks = L.opts.get('access_hooks') or ()
        if prec.cname in hooks and not is_ref(ft) and (n.get('isArrow') or be.ptr is not None):
            # guarded access: every load/store the code makes through this record type goes through a hook macro
            pp = be.s if n.get('isArrow') else be.ptr
            return E('FRGV_ACC(%s, %s)' % (pp, fname))
        if n.get('isArrow'):
            s = '%s->%s' % (self.paren(be.s), fname)
        else:
            if be.ptr is not None:
                s = '%s->%s' % (self.paren(be.ptr), fname)
            else:
                s = '%s.%s' % (self.paren(be.s), fname)
        if is_ref(ft):
            return deref(s)
        return E(s)

    def paren(self, s):
        if re.match(r'^[A-Za-z_][A-Za-z_0-9]*$', s) or (s.startswith('(') and s.endswith(')') and self._bal(s[1:-1])):
            return s
        if re.match(r'^[A-Za-z_][A-Za-z_0-9]*((->|\.)[A-Za-z_][A-Za-z_0-9]*)*$', s):
            return s
        return '(%s)' % s

    def _bal(self, s):
        d = 0
        for c in s:
            if c == '(':
                d += 1
            elif c == ')':
                d -= 1
                if d < 0:
                    return False
        return d == 0

    # ------------------------------------------------------------------ operators
    def ex_UnaryOperator(self, n):
        op = n['opcode']
        c = kids(n)[0]
        if op == '*':
            e = self.expr(c)
            return deref(self.paren(e.s))
        if op == '&':
            if c.get('kind') == 'DeclRefExpr' and c['referencedDecl'].get('kind') in ('FunctionDecl', 'CXXMethodDecl'):
                return self.expr(c)
            e = self.expr(c, want_lvalue=True)
            return E(addr(e))
        if op == '__extension__':
            return self.expr(c)
        e = self.expr(c)
        if op in ('++', '--'):
            if n.get('isPostfix'):
                return E('(%s%s)' % (self.paren(e.s), op))
            return E('(%s%s)' % (op, self.paren(e.s)))
        if op in ('!', '~', '-', '+'):
            return E('(%s%s)' % (op, self.paren(e.s)))
        if op in ('__real', '__imag'):
            self.err(n, 'complex')
        self.err(n, 'unary operator %s' % op)

    def ex_BinaryOperator(self, n):
        op = n['opcode']
        a, b = kids(n)
        if op in ('->*', '.*'):
            return self.memptr_access(n, a, b, op)
        if op in ('&&', '||'):
            ea = self.expr(a)
            saved_pre, saved_post = self.pre, self.post
            self.pre, self.post = [], []
            eb = self.expr(b)
            ipre, ipost = self.pre, self.post
            self.pre, self.post = saved_pre, saved_post
            if not ipre and not ipost:
                return E('(%s %s %s)' % (ea.s, op, eb.s))
            t = self.uniq(self.tmp('__b'))
            self.hoist('_Bool %s = %s;' % (t, ea.s))
            self.hoist('if (%s%s) {' % ('' if op == '&&' else '!', t))
            for s in ipre:
                self.hoist('\t' + s)
            self.hoist('\t%s = %s;' % (t, eb.s))
            for s in reversed(ipost):
                self.hoist('\t' + s)
            self.hoist('}')
            return E(t)
        if op == ',':
            ea = self.expr(a, discard=True)
            eb = self.expr(b)
            if ea is None or not ea.s:
                return eb
            return E('(%s, %s)' % (ea.s, eb.s), None)
        if op == '=':
            t = self.ty(n)
            ea = self.expr(a, want_lvalue=True)
            rec = self.L.rec_of_type(t)
            eb = self.expr(b)
            return E('(%s = %s)' % (ea.s, eb.s))
        ea = self.expr(a)
        eb = self.expr(b)
        if op == '<=>':
            self.err(n, 'three-way comparison')
        return E('(%s %s %s)' % (ea.s, op, eb.s))

    def ex_CompoundAssignOperator(self, n):
        a, b = kids(n)
        ea = self.expr(a, want_lvalue=True)
        eb = self.expr(b)
        # C and C++ agree on the computation type through the usual arithmetic conversions
        return E('(%s %s %s)' % (ea.s, n['opcode'], eb.s))

    def memptr_access(self, n, a, b, op):
        """obj->*Member with a member pointer constant folded by template substitution"""
        L = self.L
        m = self._unwrap(b)
        while m.get('kind') in ('ImplicitCastExpr',):
            m = self._unwrap(kids(m)[0])
        if m.get('kind') == 'UnaryOperator' and m.get('opcode') == '&':
            d = kids(m)[0]
            if d.get('kind') == 'DeclRefExpr' and d['referencedDecl'].get('kind') == 'FieldDecl':
                fid = d['referencedDecl']['id']
                prec = L.records.get(L.ix.parent.get(fid, {}).get('id'))
                if prec is None:
                    self.err(n, 'record of member pointer target unknown')
                L.need_record(prec)
                fname, ft = self.field_of(prec, fid)
                ea = self.expr(a)
                if op == '->*':
                    return E('%s->%s' % (self.paren(ea.s), fname))
                if ea.ptr is not None:
                    return E('%s->%s' % (self.paren(ea.ptr), fname))
                return E('%s.%s' % (self.paren(ea.s), fname))
        self.err(n, 'pointer-to-member access with a non-constant member pointer')

    def ex_ConditionalOperator(self, n):
        c, a, b = kids(n)
        ec = self.expr(c)
        saved_pre, saved_post = self.pre, self.post
        self.pre, self.post = [], []
        ea = self.expr(a)
        apre, apost = self.pre, self.post
        self.pre, self.post = [], []
        eb = self.expr(b)
        bpre, bpost = self.pre, self.post
        self.pre, self.post = saved_pre, saved_post
        lv = n.get('valueCategory') in ('lvalue', 'xvalue')
        t = self.ty(n)
        if not (apre or apost or bpre or bpost):
            if lv:
                return deref('(%s ? %s : %s)' % (ec.s, addr(ea), addr(eb)))
            return E('(%s ? %s : %s)' % (ec.s, ea.s, eb.s))
        if self.L.rec_of_type(t) is not None and not lv:
            self.err(n, 'conditional class prvalue with temporaries outside an initialisation')
        r = self.uniq(self.tmp('__q'))
        if lv:
            self.hoist('%s;' % cdecl(('ptr', t), r))
        else:
            self.hoist('%s;' % cdecl(t, r))
        self.hoist('if (%s) {' % ec.s)
        for s in apre:
            self.hoist('\t' + s)
        self.hoist('\t%s = %s;' % (r, addr(ea) if lv else ea.s))
        for s in reversed(apost):
            self.hoist('\t' + s)
        self.hoist('} else {')
        for s in bpre:
            self.hoist('\t' + s)
        self.hoist('\t%s = %s;' % (r, addr(eb) if lv else eb.s))
        for s in reversed(bpost):
            self.hoist('\t' + s)
        self.hoist('}')
        return deref(r) if lv else E(r)

    def ex_CXXRewrittenBinaryOperator(self, n):
        cs = [c for c in kids(n) if c]
        return self.expr(cs[0])       # the semantic form, e.g. !(a == b) for a != b

    def ex_BinaryConditionalOperator(self, n):
        self.err(n, 'GNU ?: operator')

    def ex_ArraySubscriptExpr(self, n):
        a, b = kids(n)
        ea = self.expr(a)
        eb = self.expr(b)
        return E('%s[%s]' % (self.paren(ea.s), eb.s))

    def ex_UnaryExprOrTypeTraitExpr(self, n):
        nm = n.get('name')
        if 'argType' in n:
            t = self.L.ty(n['argType'])
            t = strip_ref(t)
            arg = cdecl(t)
        else:
            e = self.expr(kids(n)[0])
            arg = e.s
        if nm == 'sizeof':
            return E('sizeof(%s)' % arg)
        if nm in ('alignof', '__alignof'):
            return E('_Alignof(%s)' % arg)
        self.err(n, 'trait %s' % nm)

    def ex_OffsetOfExpr(self, n):
        self.err(n, 'offsetof')

    def ex_VAArgExpr(self, n):
        e = self.expr(kids(n)[0])
        return E('va_arg(%s, %s)' % (e.s, cdecl(self.ty(n))))

    def ex_InitListExpr(self, n):
        t = self.ty(n)
        items = [c for c in kids(n) if c]
        if n.get('valueCategory') in ('lvalue', 'xvalue') and len(items) == 1:
            return self.expr(items[0], want_lvalue=True)     # reference bound through braces
        rec = self.L.rec_of_type(t)
        if rec is not None:
            return self.materialize(n, t)
        cs = [c for c in kids(n) if c]
        if t[0] == 'base' and t[2].get('empty_std'):
            return E('((struct frgv_std_empty){0})')
        if t[0] != 'arr' and len(cs) == 1:
            return self.expr(cs[0])
        if t[0] != 'arr' and not cs:
            return E('((%s)0)' % cdecl(t))
        self.err(n, 'array init list in expression')

    def ex_LambdaExpr(self, n):
        L = self.L
        rec = L.records.get(kids(n)[0]['id'])
        L.need_record(rec)
        t = ('base', 'struct ' + rec.cname, {'kind': 'record', 'rec': rec})
        return self.materialize(n, t)

    def ex_CXXConstructExpr(self, n):
        t = self.ty(n)
        if t[0] == 'base' and t[2].get('empty_std'):
            return E('((struct frgv_std_empty){0})')
        return self.materialize(n)

    ex_CXXTemporaryObjectExpr = ex_CXXConstructExpr

    def ex_StmtExpr(self, n):
        self.err(n, 'statement expression')

    def ex_CXXPseudoDestructorExpr(self, n):
        return E('')

    # ------------------------------------------------------------------ casts
    def cast_common(self, n):
        L = self.L
        ck = n.get('castKind')
        c = [x for x in kids(n) if x][-1]
        if ck in ('LValueToRValue', 'NoOp', 'FunctionToPointerDecay', 'ArrayToPointerDecay', 'BuiltinFnToFnPtr',
                  'AtomicToNonAtomic', 'NonAtomicToAtomic', 'ConstructorConversion', 'UserDefinedConversion'):
            return self.expr(c)
        t = self.ty(n)
        if ck in ('LValueToRValue', 'NoOp', 'FunctionToPointerDecay', 'ArrayToPointerDecay', 'BuiltinFnToFnPtr',
                  'AtomicToNonAtomic', 'NonAtomicToAtomic'):
            e = self.expr(c)
            if ck == 'ArrayToPointerDecay':
                return E(e.s)
            if ck == 'NoOp' and n.get('kind') != 'ImplicitCastExpr':
                # explicit cast that only changes qualifiers
                return e
            return e
        if ck in ('ConstructorConversion', 'UserDefinedConversion'):
            return self.expr(c)
        if ck == 'PointerToIntegral':
            e = self.expr(c)
            return E('((%s)FRGV_P2I(%s))' % (cdecl(t), e.s))
        if ck == 'IntegralToPointer':
            e = self.expr(c)
            return E('((%s)FRGV_I2P(%s))' % (cdecl(t), e.s))
        if ck in ('IntegralCast', 'BitCast', 'IntegralToFloating',
                  'FloatingToIntegral', 'FloatingCast', 'BooleanToSignedIntegral', 'CPointerToObjCPointerCast',
                  'ReinterpretMemberPointer'):
            e = self.expr(c)
            return E('((%s)%s)' % (cdecl(t), e.s))
        if ck in ('IntegralToBoolean', 'PointerToBoolean', 'FloatingToBoolean', 'MemberPointerToBoolean'):
            e = self.expr(c)
            if c.get('kind') == 'DeclRefExpr' and c['referencedDecl'].get('kind') == 'FunctionDecl':
                return E('FRGV_FNPTR_NONNULL(%s)' % e.s)
            return E('(%s != 0)' % e.s)
        if ck == 'NullToPointer':
            return E('((%s)0)' % cdecl(t))
        if ck == 'NullToMemberPointer':
            self.err(n, 'null member pointer')
        if ck == 'ToVoid':
            e = self.expr(c, discard=True)
            if e is None or not e.s:
                return E('')
            return E('((void)%s)' % e.s)
        if ck in ('DerivedToBase', 'UncheckedDerivedToBase'):
            return self.derived_to_base(n, c, t)
        if ck == 'BaseToDerived':
            return self.base_to_derived(n, c, t)
        if ck == 'LValueBitCast':
            e = self.expr(c, want_lvalue=True)
            tt = strip_ref(t)
            return deref('((%s)%s)' % (cdecl(('ptr', tt)), addr(e)))
        if ck == 'Dependent':
            self.err(n, 'dependent cast')
        self.err(n, 'cast kind %s' % ck)

    ex_ImplicitCastExpr = cast_common
    ex_CStyleCastExpr = cast_common
    ex_CXXStaticCastExpr = cast_common
    ex_CXXReinterpretCastExpr = cast_common
    ex_CXXConstCastExpr = cast_common
    ex_CXXFunctionalCastExpr = cast_common

    def ex_BuiltinBitCastExpr(self, n):
        self.err(n, 'bit_cast')

    def _src_record(self, c):
        t = self.ty(c)
        if t[0] == 'ptr':
            return self.L.rec_of_type(t[1]), True
        return self.L.rec_of_type(t), False

    def derived_to_base(self, n, c, t):
        L = self.L
        rec, isptr = self._src_record(c)
        if rec is None:
            if 'atomic' in c.get('type', {}).get('qualType', ''):
                return self.expr(c)      # std::atomic<T> -> std::__atomic_base<T>: same scalar in the model
            self.err(n, 'derived-to-base on non-record')
        e = self.expr(c)
        tgt = L.rec_of_type(t[1]) if t[0] == 'ptr' else L.rec_of_type(t)
        path = self.base_path(rec, tgt)
        if path is None:
            self.err(n, 'base %s not found in %s' % (tgt.printed if tgt else '?', rec.printed))
        if isptr:
            p = e.s
        else:
            p = addr(e)
        cur = rec
        for br, bf in path:
            if bf is None or (bf == '__b0' and isptr):
                # empty base, or first base subobject (offset 0): a pointer cast, which also preserves null
                p = '((struct %s *)%s)' % (br.cname, p)
            elif isptr:
                self.err(n, 'pointer conversion to a base at non-zero offset')
            else:
                p = '(&%s->%s)' % (self.paren(p), bf)
        if isptr:
            return E(p)
        return deref(p)

    def base_path(self, rec, tgt):
        if rec is tgt:
            return []
        for br, bf in rec.bases:
            sub = self.base_path(br, tgt)
            if sub is not None:
                return [(br, bf)] + sub
        return None

    def base_to_derived(self, n, c, t):
        L = self.L
        rec, isptr = self._src_record(c)
        tgt = L.rec_of_type(t[1]) if t[0] == 'ptr' else L.rec_of_type(t)
        if rec is None or tgt is None:
            self.err(n, 'base-to-derived on non-record')
        path = self.base_path(tgt, rec)
        if path is None:
            self.err(n, 'base %s not found in %s' % (rec.printed, tgt.printed))
        e = self.expr(c)
        p = e.s if isptr else addr(e)
        # walk back: subtract offsets of non-first bases
        cur = tgt
        offs = []
        for br, bf in path:
            if bf is not None and bf != '__b0':      # __b0 is the first member: offset 0, a plain cast (layout self-check covers it)
                offs.append('__builtin_offsetof(struct %s, %s)' % (cur.cname, bf))
            cur = br
        if offs:
            p = '((struct %s *)((char *)%s - (%s)))' % (tgt.cname, p, ' + '.join(offs))
        else:
            p = '((struct %s *)%s)' % (tgt.cname, p)
        if isptr:
            return E(p)
        return deref(p)

    # ------------------------------------------------------------------ new / delete
    def ex_CXXNewExpr(self, n):
        L = self.L
        cs = [c for c in kids(n) if c]
        if not n.get('isPlacement'):
            self.err(n, 'non-placement new')
        if n.get('isArray'):
            self.err(n, 'array new')
        t = self.ty(n)      # pointer to the allocated type
        obj_t = t[1]
        # children in clang's order: [array size], [initializer], placement arguments...
        init = None
        rest = cs
        if 'initStyle' in n or (len(cs) == 2 and cs[0].get('kind') == 'CXXConstructExpr'):
            init = cs[0]
            rest = cs[1:]
        if len(rest) != 1:
            self.err(n, 'placement new with %d placement arguments' % len(rest))
        place = rest[0]
        pe = self.expr(place)
        p = self.uniq(self.tmp('__n'))
        self.hoist('%s = (%s)%s;' % (cdecl(t, p), cdecl(t), pe.s))
        if init is not None:
            rec = L.rec_of_type(obj_t)
            if rec is not None:
                self.expr_into(init, p)
            elif obj_t[0] == 'arr':
                self.err(n, 'placement new of array')
            else:
                if init.get('kind') == 'InitListExpr' and not [c for c in kids(init) if c]:
                    self.hoist('*%s = 0;' % p)
                else:
                    e = self.expr(init)
                    self.hoist('*%s = %s;' % (p, e.s))
        return E(p)

    def ex_CXXDeleteExpr(self, n):
        self.err(n, 'delete expression')

    def ex_CXXThrowExpr(self, n):
        self.err(n, 'throw')

    # ------------------------------------------------------------------ calls
    def ex_CallExpr(self, n):
        return self.call(n)

    ex_CXXMemberCallExpr = ex_CallExpr
    ex_CXXOperatorCallExpr = ex_CallExpr
    ex_UserDefinedLiteral = ex_CallExpr

    def callee_decl(self, n):
        """(decl node or ref dict, object expression or None, is_arrow)"""
        cs = kids(n)
        c = cs[0]
        while c.get('kind') in ('ImplicitCastExpr', 'ParenExpr'):
            c = kids(c)[0]
        if c.get('kind') == 'DeclRefExpr':
            if c['referencedDecl'].get('kind') in ('VarDecl', 'ParmVarDecl', 'FieldDecl', 'BindingDecl'):
                return None, None, False, c      # call through a function pointer variable
            return c['referencedDecl'], None, False, c
        if c.get('kind') == 'MemberExpr':
            mid = c.get('referencedMemberDecl')
            md = self.L.ix.by_id.get(mid) or {'id': mid, 'name': c.get('name'), 'kind': 'CXXMethodDecl', 'external': True}
            if md.get('kind') in ('FieldDecl', 'VarDecl'):
                return None, None, False, c      # call through a function pointer member
            return md, kids(c)[0], bool(c.get('isArrow')), c
        if c.get('kind') == 'CXXPseudoDestructorExpr':
            return {'kind': 'pseudo_dtor'}, None, False, c
        return None, None, False, c

    def call_args(self, f, args, n):
        """lower call arguments against callee parameter types"""
        L = self.L
        out = []
        ptypes = []
        for p in f.params:
            ptypes.append(L.ty(p['type']))
        for i, a in enumerate(args):
            pt = ptypes[i] if i < len(ptypes) else None
            if a.get('kind') == 'CXXDefaultArgExpr':
                a = self.default_arg(f, i, a)
            out.append(self.arg_value(a, pt))
        return out

    def default_arg(self, f, i, a):
        cs = [c for c in kids(a) if c]
        if cs:
            return cs[0]
        p = f.params[i] if i < len(f.params) else None
        # the default argument lives on the declaration that introduced it
        decl = f.node
        cand = [p] if p is not None else []
        d = decl
        while 'previousDecl' in d and d['previousDecl'] in self.L.ix.by_id:
            d = self.L.ix.by_id[d['previousDecl']]
            ps = [c for c in d.get('inner', ()) if c.get('kind') == 'ParmVarDecl']
            if i < len(ps):
                cand.append(ps[i])
        for pp in cand:
            ini = [c for c in kids(pp) if c and not c.get('kind', '').endswith('Attr')]
            if ini:
                return ini[0]
        self.err(a, 'default argument %d of %s not found' % (i, f.cname))

    def arg_value(self, a, pt):
        L = self.L
        if pt is not None and is_ref(pt):
            e = self.expr(a, want_lvalue=True)
            return addr(e)
        if pt is not None:
            prec = L.rec_of_type(pt)
            if prec is not None and not L.regpass(prec):
                # by-value class parameter passed by address of a caller-owned temporary
                nm = self.new_temp(pt)
                self.expr_into(a, '(&%s)' % nm)
                self.destroy_object(nm, pt, emit=self.post.append)
                return '(&%s)' % nm
        e = self.expr(a)
        return e.s

    def call(self, n, dest=None):
        L = self.L
        cs = kids(n)
        args = cs[1:]
        decl, obj, arrow, calleenode = self.callee_decl(n)
        t = self.ty(n)
        if decl is None:
            # call through a function pointer expression
            fe = self.expr(cs[0])
            argv = [self.expr(a).s for a in args]
            return self.finish_call('%s(%s)' % (self.paren(fe.s), ', '.join(argv)), n, dest, None)
        if decl.get('kind') == 'pseudo_dtor':
            return E('')
        name = decl.get('name', '')
        full = L.ix.by_id.get(decl.get('id'))
        # ---- builtins and std:: functions outside the dumped AST
        if full is None or decl.get('external'):
            return self.external_call(n, decl, obj, arrow, args, dest, calleenode)
        f = L.func_of(full['id'])
        if f is None:
            self.err(n, 'callee %s is not a function' % name)
        # operator call: first argument is the object for member operators
        if n.get('kind') == 'CXXOperatorCallExpr' and f.rec is not None and not f.is_static:
            obj = args[0]
            args = args[1:]
            arrow = False
        # trivial (never instantiated) assignment operators and destructors
        if f.body is None and (full.get('isImplicit') or full.get('explicitlyDefaulted')):
            if f.kind == 'dtor':
                if L.nontrivial_dtor(f.rec):
                    L.need_func(f)
                    oe = self.expr(obj)
                    p = oe.s if arrow else addr(oe)
                    return E('%s(%s)' % (f.cname, p))
                oe = self.expr(obj, discard=True)
                return E('')
            if name == 'operator=':
                oe = self.expr(obj, want_lvalue=True)
                lhs = deref(oe.s) if arrow else oe
                rhs = self.expr(args[0])
                sk = L._sig_kind(f)
                if not (f.rec.dd.get('%sAssign' % sk, {}).get('trivial') or L.regpass(f.rec)):
                    self.err(n, 'non-trivial defaulted assignment of %s not instantiated' % f.rec.printed)
                return deref('(&(%s = %s))' % (lhs.s, rhs.s)) if False else E('(%s = %s)' % (lhs.s, rhs.s))
            if f.kind == 'method' and name == 'operator==' :
                self.err(n, 'defaulted comparison not instantiated')
        L.need_func(f)
        argv = []
        if f.rec is not None and not f.is_static:
            if obj is None:
                self.err(n, 'member call without object')
            oe = self.expr(obj, want_lvalue=True)
            argv.append(oe.s if arrow else addr(oe))
        elif obj is not None:
            oe = self.expr(obj, discard=True)    # static member called through an object
        argv += self.call_args(f, args, n)
        ft = L.fn_type(full)
        return self.finish_call('%s(%s)' % (f.cname, ', '.join(argv)), n, dest, ft[1], argv=argv, fname=f.cname)

    def finish_call(self, text, n, dest, ret_t, argv=None, fname=None):
        L = self.L
        t = ret_t if ret_t is not None else self.ty(n)
        if is_ref(t):
            e = deref(text)
            if dest is not None:
                self.hoist('*%s = %s;' % (dest, e.s))
                return None
            return e
        rec = L.rec_of_type(t)
        if rec is not None and not L.regpass(rec):
            # sret
            if fname is None:
                self.err(n, 'indirect call returning a non-trivial class')
            if dest is None:
                nm = self.new_temp(t)
                self.hoist('%s(%s);' % (fname, ', '.join(['(&%s)' % nm] + argv)))
                self.destroy_object(nm, t, emit=self.post.append)
                return E(nm)
            self.hoist('%s(%s);' % (fname, ', '.join([dest] + argv)))
            return None
        if dest is not None:
            self.hoist('*%s = %s;' % (dest, text))
            return None
        return E(text)

    # ------------------------------------------------------------------ calls leaving the dumped AST
    def external_call(self, n, decl, obj, arrow, args, dest, calleenode):
        L = self.L
        name = decl.get('name', '')
        if name.startswith('__builtin_') or name.startswith('__atomic_') or name in ('memcpy', 'memset', 'strlen',
                                                                                      'memmove', 'memcmp', 'strcmp',
                                                                                      'abort', 'strncmp', 'strnlen'):
            return self.builtin_call(n, name, args, dest)
        if obj is None and n.get('kind') == 'CXXOperatorCallExpr' and args and \
                'atomic' in args[0].get('type', {}).get('qualType', ''):
            return self.atomic_call(n, name, args[0], False, args[1:])
        if obj is not None:
            ots = (obj.get('type', {}).get('desugaredQualType') or obj.get('type', {}).get('qualType', ''))
            if 'atomic' in ots or 'atomic' in obj.get('type', {}).get('qualType', ''):
                return self.atomic_call(n, name, obj, arrow, args)
            self.err(n, 'call to method %s of a type outside the AST (%s)' % (name, ots))
        if name in STD_IDENTITY and len(args) == 1:
            e = self.expr(args[0], want_lvalue=True)
            return e
        if name == 'addressof' and len(args) == 1:
            e = self.expr(args[0], want_lvalue=True)
            return E(addr(e))
        if name == 'swap' and len(args) == 2:
            return self.std_swap(n, args)
        if name in ('min', 'max') and len(args) == 2:
            a = self.expr(args[0], want_lvalue=True)
            b = self.expr(args[1], want_lvalue=True)
            ta = self.tmp('__m'); tb = self.tmp('__m')
            t = strip_ref(self.ty(n))
            self.hoist('%s = %s;' % (cdecl(('ptr', t), ta), addr(a)))
            self.hoist('%s = %s;' % (cdecl(('ptr', t), tb), addr(b)))
            if name == 'min':
                return deref('((*%s < *%s) ? %s : %s)' % (tb, ta, tb, ta))
            return deref('((*%s < *%s) ? %s : %s)' % (ta, tb, tb, ta))
        if name in ('declval',):
            self.err(n, 'declval evaluated')
        if name in ('is_constant_evaluated',):
            return E('0')
        if name in ('exchange',) and len(args) == 2:
            a = self.expr(args[0], want_lvalue=True)
            b = self.expr(args[1])
            t = self.ty(n)
            if L.rec_of_type(t) is not None:
                self.err(n, 'std::exchange on class type')
            r = self.uniq(self.tmp('__x'))
            self.hoist('%s = %s;' % (cdecl(t, r), a.s))
            self.hoist('%s = %s;' % (a.s, b.s))
            return E(r)
        self.err(n, 'call to function %s outside the dumped AST' % name)

    def std_swap(self, n, args):
        L = self.L
        a = self.expr(args[0], want_lvalue=True)
        b = self.expr(args[1], want_lvalue=True)
        t = strip_ref(self.ty(args[0]))
        rec = L.rec_of_type(t)
        if rec is not None and not L.regpass(rec):
            self.err(n, 'std::swap on non-trivially-copyable class %s' % rec.printed)
        pa = self.uniq(self.tmp('__s')); pb = self.uniq(self.tmp('__s')); tv = self.uniq(self.tmp('__s'))
        if t[0] == 'arr':
            self.err(n, 'std::swap on arrays')
        self.hoist('%s = %s;' % (cdecl(('ptr', t), pa), addr(a)))
        self.hoist('%s = %s;' % (cdecl(('ptr', t), pb), addr(b)))
        self.hoist('%s = *%s;' % (cdecl(t, tv), pa))
        self.hoist('*%s = *%s;' % (pa, pb))
        self.hoist('*%s = %s;' % (pb, tv))
        return E('')

    def builtin_call(self, n, name, args, dest):
        if name in ('__builtin_trap', '__builtin_unreachable', '__builtin_abort', 'abort'):
            return E('FRGV_TRAP()')
        if name == '__builtin_expect':
            return self.expr(args[0])
        if name in ('__builtin_assume',):
            return E('')
        if name in ('__builtin_is_constant_evaluated',):
            return E('0')
        if name in ('__builtin_launder', '__builtin_addressof'):
            if name == '__builtin_addressof':
                e = self.expr(args[0], want_lvalue=True)
                return E(addr(e))
            return self.expr(args[0])
        argv = [self.expr(a).s for a in args]
        cname = {'__builtin_memcpy': 'memcpy', '__builtin_memset': 'memset', '__builtin_memmove': 'memmove',
                 '__builtin_strlen': 'strlen', '__builtin_memcmp': 'memcmp',
                 '__builtin_va_start': 'va_start', '__builtin_va_end': 'va_end', '__builtin_va_copy': 'va_copy',
                 '__builtin_ia32_pause': 'FRGV_PAUSE'}.get(name, name)
        if cname == 'va_start':
            argv = argv[:2]
        if cname.startswith('__atomic_'):
            cname = 'FRGV' + cname[1:]
        return E('%s(%s)' % (cname, ', '.join(argv)))

    def ex_AtomicExpr(self, n):
        """__atomic_* builtins: clang's JSON drops the builtin's name, so it is read back from the source"""
        from .astload import source_text, spellloc
        f, l, off = spellloc(n.get('range', {}).get('begin'))
        name = n.get('name')
        if not name and f and off is not None:
            m = re.match(rb'[A-Za-z_0-9]+', source_text(f, off, off + 64))
            name = m.group(0).decode() if m else None
        if not name or not name.startswith('__atomic_'):
            self.err(n, 'atomic builtin with unknown name %r' % name)
        a = [self.expr(c).s for c in kids(n) if c]
        op = name[len('__atomic_'):]
        # sub-expression order in the AST: ptr, order, [val1], [order_fail], [val2], [weak]
        if op in ('load_n',):
            return E('FRGV_ATOMIC_LOAD(%s, %s)' % (a[0], a[1]))
        if op in ('store_n',):
            return E('FRGV_ATOMIC_STORE(%s, %s, %s)' % (a[0], a[2], a[1]))
        if op in ('exchange_n',):
            return E('FRGV_ATOMIC_EXCHANGE(%s, %s, %s)' % (a[0], a[2], a[1]))
        if op in ('fetch_add', 'fetch_sub', 'fetch_or', 'fetch_and'):
            return E('FRGV_ATOMIC_%s(%s, %s, %s)' % (op.upper(), a[0], a[2], a[1]))
        if op in ('compare_exchange_n',):
            return E('FRGV_ATOMIC_COMPARE_EXCHANGE_STRONG(%s, %s, %s, %s, %s)' % (a[0], a[2], a[4], a[1], a[3]))
        self.err(n, 'atomic builtin %s' % name)

    def atomic_call(self, n, name, obj, arrow, args):
        oe = self.expr(obj, want_lvalue=True)
        p = oe.s if arrow else addr(oe)
        vt = strip_ref(self.ty(n))
        argv = [self.expr(a).s for a in args]
        if name.startswith('operator'):
            op = name[len('operator'):].strip()
            opn = {'=': 'assign', '++': 'inc', '--': 'dec', '+=': 'add_assign', '-=': 'sub_assign'}.get(op)
            if opn is None:
                # conversion operator T
                return E('FRGV_ATOMIC_LOAD(%s, FRGV_MEMORY_ORDER_SEQ_CST)' % p)
            if opn == 'assign':
                return E('FRGV_ATOMIC_STORE(%s, %s, FRGV_MEMORY_ORDER_SEQ_CST)' % (p, argv[0]))
            self.err(n, 'atomic operator %s' % op)
        if name not in ATOMIC_METHODS:
            self.err(n, 'atomic method %s' % name)
        # default memory orders
        if name == 'load' and len(argv) == 0:
            argv.append('FRGV_MEMORY_ORDER_SEQ_CST')
        if name in ('store', 'exchange', 'fetch_add', 'fetch_sub', 'fetch_and', 'fetch_or', 'fetch_xor') and len(argv) == 1:
            argv.append('FRGV_MEMORY_ORDER_SEQ_CST')
        if name.startswith('compare_exchange'):
            # expected is passed by reference
            ex = self.expr(args[0], want_lvalue=True)
            argv[0] = addr(ex)
            if len(argv) == 2:
                argv += ['FRGV_MEMORY_ORDER_SEQ_CST', 'FRGV_MEMORY_ORDER_SEQ_CST']
            elif len(argv) == 3:
                argv.append(argv[2])
        return E('FRGV_ATOMIC_%s(%s)' % (name.upper(), ', '.join([p] + argv)))
