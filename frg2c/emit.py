"""Driver: choose roots, lower on demand, print the C translation unit."""
import re, os, sys, json, fnmatch
from .astload import ExtractError, exploc, load_docs, Index, run_clang, source_text, source_hash
from .ctypes_ import cdecl, is_ref
from .lower import Lowering, Func, sanitize
from .body import FuncLower

FN_KINDS = ('FunctionDecl', 'CXXMethodDecl', 'CXXConstructorDecl', 'CXXDestructorDecl', 'CXXConversionDecl')

def has_body(n):
    return any(c.get('kind') == 'CompoundStmt' for c in n.get('inner', ()))

def parse_contract_file(path):
    """loop contracts: blocks introduced by '//@ loop <function>#<ordinal>' up to the next '//@' line"""
    loops = {}
    if not path or not os.path.exists(path):
        return loops
    cur = None
    for ln in open(path):
        m = re.match(r'\s*//@\s*loop\s+([A-Za-z_0-9]+)#(\d+)\s*$', ln)
        if m:
            cur = (m.group(1), int(m.group(2)))
            loops[cur] = ''
            continue
        if re.match(r'\s*//@\s*end', ln):
            cur = None
            continue
        if cur is not None:
            loops[cur] += ln
    return loops

def eval_type_exprs(raw_json_text, inst_cpp, include_dirs, workdir, clang_flags=()):
    """sizeof(T)/alignof(T) left unevaluated inside printed template-ids: evaluate them with the compiler"""
    import subprocess
    exprs = set()
    for m in re.finditer(r'\b(sizeof|alignof)\(', raw_json_text):
        # only inside type strings (qualType values); balance parentheses
        i = m.end()
        depth = 1
        while i < len(raw_json_text) and depth:
            c = raw_json_text[i]
            if c == '(':
                depth += 1
            elif c == ')':
                depth -= 1
            elif c in '"\n':
                break
            i += 1
        if depth == 0:
            e = raw_json_text[m.start():i]
            if '...' not in e and 'type-parameter' not in e:
                exprs.add(e)
    if not exprs or inst_cpp is None:
        return {}
    exprs = sorted(exprs)
    good = {}
    # expressions over dependent names do not compile; probe each one separately but in one TU via SFINAE-free
    # trial: compile individually only if the batch fails
    def build(es):
        lines = ['#include "%s"' % os.path.abspath(inst_cpp), '#include <stdio.h>', 'int main() {']
        for k, e in enumerate(es):
            lines.append('  printf("%d %%zu\\n", (size_t)(%s));' % (k, e))
        lines.append('  return 0; }')
        src = os.path.join(workdir, 'tyexpr.cpp')
        exe = os.path.join(workdir, 'tyexpr')
        open(src, 'w').write('\n'.join(lines) + '\n')
        cmd = ['clang++', '-std=c++20', '-fno-access-control', '-Wno-everything', '-O0', '-ffunction-sections', '-Wl,--gc-sections']
        for d in include_dirs:
            cmd += ['-I', d]
        cmd += list(clang_flags) + [src, '-o', exe]
        r = subprocess.run(cmd, stdout=subprocess.PIPE, stderr=subprocess.PIPE, text=True)
        if r.returncode != 0:
            return None, r.stderr
        r = subprocess.run([exe], stdout=subprocess.PIPE, text=True)
        os.unlink(exe)
        out = {}
        for ln in r.stdout.splitlines():
            k, v = ln.split()
            out[es[int(k)]] = v
        return out, ''
    res, err = build(exprs)
    if res is None:
        # drop the expressions the compiler rejects (dependent names from template patterns)
        bad = set()
        for ln in err.splitlines():
            for e in exprs:
                pass
        ok = []
        for e in exprs:
            r1, _ = build([e])
            if r1 is not None:
                good.update(r1)
        return good
    return res

class Extractor:
    def __init__(self, ast_json, repo_root='/repo', inst_cpp=None, include_dirs=(), workdir=None, clang_flags=()):
        raw = open(ast_json).read()
        self.type_exprs = {}
        if inst_cpp is not None and ('sizeof(' in raw or 'alignof(' in raw):
            self.type_exprs = eval_type_exprs(raw, inst_cpp, include_dirs, workdir or os.path.dirname(os.path.abspath(ast_json)), clang_flags)
        del raw
        self.docs = load_docs(ast_json)
        self.ix = Index(self.docs)
        self.repo_root = repo_root

    def lower(self, roots, loop_contracts=None, names=None, exclude=(), extern=(), opts=None):
        L = Lowering(self.ix, names=names, opts=opts)
        L.type_exprs = self.type_exprs
        L.loop_contracts = loop_contracts or {}
        L.loop_contracts_used = set()
        L.global_of = lambda node: global_of(L, node)
        L.probe_consts = {}
        L.force_extern = set(extern)
        self.L = L
        # roots
        for r in roots:
            kind, _, pat = r.partition(':')
            if kind == 'rec':
                recs = [x for x in L.records.values() if fnmatch.fnmatch(x.cname, pat)]
                if not recs:
                    raise ExtractError('root %s: no record with that C name (have: %s)' % (
                        r, ', '.join(sorted(x.cname for x in L.records.values() if not x.cname.startswith('std_'))[:80])))
                for rec in recs:
                    L.need_record(rec)
                    for m in rec.methods:
                        if has_body(m):
                            f = L.func_of(m['id'])
                            if f.cname not in exclude:
                                L.need_func(f)
            elif kind == 'fn':
                hit = False
                for n in list(self.ix.by_id.values()):
                    if n.get('kind') in FN_KINDS and has_body(n) and not self._is_pattern(n):
                        if fnmatch.fnmatch(L.printed_fn_name(n), pat):
                            f = L.func_of(n['id'])
                            if f.cname not in exclude:
                                L.need_func(f)
                                hit = True
                if not hit:
                    raise ExtractError('root %s: no function definition matches' % r)
            else:
                raise ExtractError('bad root %r' % r)
        bodies = []
        protos = {}
        done = set()
        while L.needed_funcs:
            f = L.needed_funcs.pop(0)
            if f.cname in done:
                continue
            done.add(f.cname)
            if f.cname in L.force_extern:
                fl = FuncLower(L, f)
                f_body, f.body = f.body, None
                proto, _ = fl.lower()
                f.body = f_body
                protos[f.cname] = proto
                continue
            fl = FuncLower(L, f)
            proto, lines = fl.lower()
            protos[f.cname] = proto
            if lines is not None:
                bodies.append((f, proto, lines))
        for cname, f in L.extern_funcs.items():
            if cname not in protos:
                fl = FuncLower(L, f)
                proto, _ = fl.lower()
                protos[cname] = proto
        unused = set(L.loop_contracts) - L.loop_contracts_used
        if unused:
            raise ExtractError('loop contracts for loops that do not exist: %s' % sorted(unused))
        return self._print(L, protos, bodies)

    def _is_pattern(self, n):
        p = self.ix.parent.get(n['id'])
        if p is not None and p.get('kind') == 'FunctionTemplateDecl':
            fns = [c for c in p.get('inner', ()) if c.get('kind') in FN_KINDS]
            return fns and fns[0] is n
        # member of a class template pattern (not a specialization)
        while p is not None:
            if p.get('kind') in ('ClassTemplateDecl', 'ClassTemplatePartialSpecializationDecl'):
                return True
            if p.get('kind') == 'ClassTemplateSpecializationDecl':
                return False
            if p.get('kind') == 'CXXRecordDecl':
                pp = self.ix.parent.get(p['id'])
                if pp is not None and pp.get('kind') == 'ClassTemplateDecl':
                    return True
            p = self.ix.parent.get(p.get('id')) if p.get('id') else None
        return False

    def _print(self, L, protos, bodies):
        out = []
        w = out.append
        w('/* generated by frg2c from the instantiated clang AST; do not edit */')
        # enums
        for i in L.used_enums:
            cname, node = L.enums[i]
            under = node.get('fixedUnderlyingType', {}).get('qualType', 'int')
            ut = L.ty(node['fixedUnderlyingType']) if 'fixedUnderlyingType' in node else ('base', 'int', {})
            w('typedef %s;' % cdecl(ut, cname))
            v = -1
            consts = []
            for c in node.get('inner', ()):
                if c.get('kind') != 'EnumConstantDecl':
                    continue
                val = None
                for ci in c.get('inner', ()):
                    val = self._const(ci)
                v = val if val is not None else v + 1
                consts.append('#define %s_%s ((%s)%d)' % (cname, c['name'], cname, v))
            out.extend(consts)
        # records: forward declarations then definitions in dependency order
        for r in L.record_order:
            w('%s %s;' % ('union' if r.is_union else 'struct', r.cname))
        emitted = set()
        def emit_rec(r):
            if r.cname in emitted:
                return
            emitted.add(r.cname)
            for br, bf in r.bases:
                emit_rec(br)
            for fname, fn, ft in r.fields:
                t = ft
                while t[0] == 'arr':
                    t = t[1]
                if t[0] == 'base' and t[2].get('kind') == 'record':
                    emit_rec(t[2]['rec'])
            f, l, _ = exploc(r.node.get('loc'))
            w('/* %s  (%s:%s) */' % (r.printed, self._rel(f), l))
            w('%s %s {' % ('union' if r.is_union else 'struct', r.cname))
            n = 0
            for br, bf in r.bases:
                if bf:
                    w('\tstruct %s %s;' % (br.cname, bf)); n += 1
            for fname, fn, ft in r.fields:
                t = ('ptr', ft[1]) if is_ref(ft) else ft
                al = ''
                for a in fn.get('inner', ()):
                    if a.get('kind') == 'AlignedAttr':
                        av = self._aligned_value(a)
                        if av:
                            al = ' __attribute__((aligned(%d)))' % av
                w('\t%s%s;' % (cdecl(t, fname), al)); n += 1
            if n == 0:
                w('\tchar __empty;')
            ral = ''
            for a in r.node.get('inner', ()):
                if a.get('kind') == 'AlignedAttr':
                    av = self._aligned_value(a)
                    if av:
                        ral = ' __attribute__((aligned(%d)))' % av
            w('}%s;' % ral)
        ri = 0
        while ri < len(L.record_order):     # record_order may grow while types are resolved
            emit_rec(L.record_order[ri])
            ri += 1
        # prototypes (may reference records discovered late)
        proto_lines = []
        for cname in sorted(protos):
            proto_lines.append('%s;' % protos[cname])
        # globals
        glob_lines = []
        for _gid, (cname, node) in L.globals.items():
            glob_lines.append(L.global_text[cname])
        body_lines = []
        meta = {}
        for f, proto, lines in bodies:
            rng = f.node.get('range', {})
            fb, lb, ob = exploc(rng.get('begin'))
            fe_, le, oe = exploc(rng.get('end'))
            h = ''
            if fb and ob is not None and oe is not None and os.path.exists(fb):
                tl = rng.get('end', {}).get('tokLen', 1)
                if 'expansionLoc' in rng.get('end', {}):
                    tl = rng['end']['expansionLoc'].get('tokLen', 1)
                h = source_hash(fb, ob, oe + tl)
            meta[f.cname] = {'file': self._rel(fb), 'lines': [lb, le], 'sha256_16': h,
                             'cxx': L.printed_fn_name(f.node), 'loops': L.loops_seen.get(f.cname, 0)}
            body_lines.append('/* from %s:%s-%s sha256:%s  %s */' % (self._rel(fb), lb, le, h, L.printed_fn_name(f.node)))
            body_lines.append(proto)
            body_lines.append('{')
            body_lines.extend(lines)
            body_lines.append('}')
            body_lines.append('')
        # records needed by late discoveries
        while ri < len(L.record_order):
            emit_rec(L.record_order[ri]); ri += 1
        text = '\n'.join(out + [''] + list(L.static_vars.values()) + glob_lines + [''] + proto_lines + [''] + body_lines) + '\n'
        self.meta = meta
        self.probe_consts = dict(L.probe_consts)
        self.externs = sorted(L.extern_funcs)
        self.records_used = [(r.cname, r.printed) for r in L.record_order]
        return text

    def _aligned_value(self, a):
        for c in a.get('inner', ()):
            v = self._const(c)
            if v is not None:
                return v
        return None

    def _const(self, n):
        if not isinstance(n, dict):
            return None
        if 'value' in n and n.get('kind') in ('ConstantExpr', 'IntegerLiteral'):
            try:
                return int(n['value'])
            except (TypeError, ValueError):
                return None
        for c in n.get('inner', ()):
            v = self._const(c)
            if v is not None:
                return v
        return None

    def _rel(self, f):
        if f and f.startswith(self.repo_root + '/'):
            return f[len(self.repo_root) + 1:]
        return f


def run_probe(ex, text, inst_cpp, include_dirs, workdir, clang_flags=()):
    """Compile and run a C++ probe over the real headers: values of constexpr variables used by the
    lowered code, and sizeof/alignof/offsetof of every lowered record (emitted as _Static_asserts)."""
    import subprocess
    L = ex.L
    lines = ['#include "%s"' % os.path.abspath(inst_cpp), '#include <stdio.h>', '#include <stddef.h>', 'int main() {']
    for cname, cxx in sorted(ex.probe_consts.items()):
        lines.append('  printf("C %s %%lld\\n", (long long)(%s));' % (cname, cxx))
    nrec = 0
    for r in L.record_order:
        if r.is_lambda or '(unnamed' in r.printed or '(lambda' in r.printed or getattr(r, 'local', False):
            continue
        cxx = r.printed.replace('(anonymous namespace)::', '')
        if r.names and len(r.names) > 1:
            cxx = r.names[1].replace('(anonymous namespace)::', '')
        if not probe_nameable(L, r):
            continue
        nrec += 1
        tag = 'union' if r.is_union else 'struct'
        lines.append('  printf("S %s %s %%zu %%zu\\n", sizeof(%s), alignof(%s));' % (tag, r.cname, cxx, cxx))
        for fname, fn, ft in r.fields:
            if is_ref(ft) or fn.get('isBitfield') or not fn.get('name'):
                continue
            lines.append('  printf("O %s %s %s %%zu\\n", (size_t)__builtin_offsetof(%s, %s));' % (tag, r.cname, fname, cxx, fn['name']))
    lines.append('  return 0; }')
    src = os.path.join(workdir, 'probe.cpp')
    exe = os.path.join(workdir, 'probe')
    open(src, 'w').write('\n'.join(lines) + '\n')
    cmd = ['clang++', '-std=c++20', '-fno-access-control', '-Wno-everything', '-O0']
    for d in include_dirs:
        cmd += ['-I', d]
    cmd += list(clang_flags) + ['-ffunction-sections', '-Wl,--gc-sections', src, '-o', exe]
    r = subprocess.run(cmd, stdout=subprocess.PIPE, stderr=subprocess.PIPE, text=True)
    if r.returncode != 0:
        raise ExtractError('constant/layout probe does not compile:\n%s' % r.stderr[-3000:])
    r = subprocess.run([exe], stdout=subprocess.PIPE, stderr=subprocess.PIPE, text=True, timeout=60)
    if r.returncode != 0:
        raise ExtractError('constant/layout probe failed to run')
    consts = {}
    asserts = []
    for ln in r.stdout.splitlines():
        p = ln.split()
        if p[0] == 'C':
            consts[p[1]] = p[2]
        elif p[0] == 'S':
            asserts.append('_Static_assert(sizeof(%s %s) == %s, "layout: sizeof %s");' % (p[1], p[2], p[3], p[2]))
            asserts.append('_Static_assert(_Alignof(%s %s) == %s, "layout: alignof %s");' % (p[1], p[2], p[4], p[2]))
        elif p[0] == 'O':
            asserts.append('_Static_assert(__builtin_offsetof(%s %s, %s) == %s, "layout: offsetof %s.%s");' % (p[1], p[2], p[3], p[4], p[2], p[3]))
    def sub(m):
        v = consts.get(m.group(1))
        if v is None:
            raise ExtractError('probe gave no value for %s' % m.group(1))
        iv = int(v)
        return '%d%s' % (iv, 'LL' if iv < 0 else 'ULL')
    text = re.sub(r'@@CONST:([A-Za-z_0-9]+)@@', sub, text)
    text += '\n/* layout self-check against the real C++ types (probe over /repo/include) */\n' + '\n'.join(asserts) + '\n'
    for f in (exe,):
        if os.path.exists(f):
            os.unlink(f)
    ex.layout_asserts = len(asserts)
    ex.const_values = consts
    return text

def probe_nameable(L, r):
    """can the record be named from namespace scope in C++? (not local to a function, not unnamed)"""
    p = L.ix.parent.get(r.node['id'])
    while p is not None:
        k = p.get('kind')
        if k in ('FunctionDecl', 'CXXMethodDecl', 'CXXConstructorDecl', 'CXXDestructorDecl', 'LambdaExpr', 'CompoundStmt', 'DeclStmt'):
            return False
        if k in ('CXXRecordDecl', 'ClassTemplateSpecializationDecl') and not p.get('name'):
            return False
        p = L.ix.parent.get(p.get('id')) if p.get('id') else None
    return True

def global_of(L, node):
    i = node['id']
    if i in L.globals:
        return L.globals[i][0]
    cname = sanitize(L.printed_name(node))
    L.globals[i] = (cname, node)
    if not hasattr(L, 'global_text'):
        L.global_text = {}
    t = L.ty(node['type'])
    if node.get('constexpr') and t[0] == 'base' and t[2].get('kind') in ('builtin', 'enum') and not is_ref(t):
        cxx = L.printed_name(node).replace('(anonymous namespace)::', '')
        L.probe_consts[cname] = cxx
        base_t = cdecl(t).replace('const ', '')
        L.global_text[cname] = 'static const %s %s = @@CONST:%s@@;' % (base_t, cname, cname)
        return cname
    init = [c for c in node.get('inner', ()) if c and c.get('kind', '').endswith(('Expr', 'Operator', 'Literal', 'Cleanups'))]
    if not init:
        # static data member defined out of line? look for a definition redeclaration
        for m in L.ix.by_id.values():
            if m.get('previousDecl') == i and m.get('kind') == 'VarDecl':
                init = [c for c in m.get('inner', ()) if c and c.get('kind', '').endswith(('Expr', 'Operator', 'Literal', 'Cleanups'))]
                if init:
                    break
    if not init:
        L.global_text[cname] = 'extern %s;' % cdecl(t, cname)
        return cname
    dummy = Func({'id': 'g_' + cname, 'kind': 'FunctionDecl', 'name': cname, 'type': {'qualType': 'void ()'}, 'inner': []},
                 '__global_' + cname, None, 'fn')
    fl = FuncLower(L, dummy)
    if t[0] == 'arr':
        fl.pre, fl.post = [], []
        txt = array_init_text(fl, init[0])
        L.global_text[cname] = 'static const %s = %s;' % (cdecl(t, cname).replace('const ', ''), txt)
        return cname
    grec = L.rec_of_type(t)
    if grec is not None and not is_ref(t):
        L.need_record(grec)
        if grec.empty or grec.dd.get('defaultCtor', {}).get('trivial'):
            L.global_text[cname] = 'static struct %s %s;' % (grec.cname, cname)
            return cname
        raise ExtractError('global %s of class type %s with a non-trivial initializer' % (cname, grec.printed))
    with fl.fullexpr() as fe:
        e = fl.expr(init[0])
    if fe.pre or fe.post:
        raise ExtractError('global %s has an initializer that needs temporaries' % cname)
    base_t = cdecl(t).replace('const ', '')
    if re.search(r'[A-Za-z_][A-Za-z_0-9]*\s*\((?!\s*(unsigned|signed|int|long|char|short|size_t|_Bool|uint\d+_t|int\d+_t|uintptr_t)\b)', e.s.replace('sizeof(', 'SIZEOF[').replace('_Alignof(', 'AL[')):
        # initializer calls a (constexpr) function: expand at each use
        L.global_text[cname] = '#define %s ((%s)(%s))' % (cname, base_t, e.s)
    else:
        L.global_text[cname] = 'static const %s %s = %s;' % (base_t, cname, e.s)
    return cname

def array_init_text(fl, n):
    k = n.get('kind')
    if k in ('ExprWithCleanups', 'ConstantExpr', 'ImplicitCastExpr') and k != 'InitListExpr':
        cs = [c for c in n.get('inner', ()) if c]
        return array_init_text(fl, cs[-1])
    if k == 'InitListExpr':
        return '{' + ', '.join(array_init_text(fl, c) for c in n.get('inner', ()) if c) + '}'
    return fl.expr(n).s


def main(argv=None):
    import argparse
    ap = argparse.ArgumentParser()
    ap.add_argument('inst')
    ap.add_argument('-o', '--out', required=True)
    ap.add_argument('-I', action='append', default=[])
    ap.add_argument('--root', action='append', default=[])
    ap.add_argument('--contracts')
    ap.add_argument('--ast')
    ap.add_argument('--meta')
    a = ap.parse_args(argv)
    ast = a.ast or a.out + '.ast.json'
    try:
        if a.inst.endswith('.json'):
            ast = a.inst
        else:
            run_clang(a.inst, a.I or ['/repo/include'], ast)
        ex = Extractor(ast, inst_cpp=None if a.inst.endswith('.json') else a.inst, include_dirs=a.I or ['/repo/include'],
                       workdir=os.path.dirname(os.path.abspath(a.out)))
        text = ex.lower(a.root, parse_contract_file(a.contracts))
        if not a.inst.endswith('.json'):
            text = run_probe(ex, text, a.inst, a.I or ['/repo/include'], os.path.dirname(os.path.abspath(a.out)))
    except ExtractError as e:
        sys.stderr.write('frg2c: extraction aborted: %s\n' % e)
        return 2
    open(a.out, 'w').write(text)
    if a.meta:
        json.dump({'functions': ex.meta, 'externs': ex.externs, 'records': ex.records_used}, open(a.meta, 'w'), indent=1)
    return 0

if __name__ == '__main__':
    sys.exit(main())
