"""Driver: choose roots, lower on demand, print the C translation unit."""
import re, os, sys, json, fnmatch
from .astload import ExtractError, exploc, load_docs, Index, run_clang, source_text, source_hash
from .ctypes_ import cdecl, is_ref
from .lower import Lowering, Func, sanitize
from .body import FuncLower

FN_KINDS = ('FunctionDecl', 'CXXMethodDecl', 'CXXConstructorDecl', 'CXXDestructorDecl', 'CXXConversionDecl')

def has_body(n):
    return any(c.get('kind') == 'CompoundStmt' for c in n.get('inner', ()))

def parse_contract_file(path):
    """loop contracts: blocks introduced by '//@ loop <function>#<ordinal>' up to the next '//@' line"""
    loops = {}
    if not path or not os.path.exists(path):
        return loops
    cur = None
    for ln in open(path):
        m = re.match(r'\s*//@\s*loop\s+([A-Za-z_0-9]+)#(\d+)\s*$', ln)
        if m:
            cur = (m.group(1), int(m.group(2)))
            loops[cur] = ''
            continue
        if re.match(r'\s*//@\s*end', ln):
            cur = None
            continue
        if cur is not None:
            loops[cur] += ln
    return loops

class Extractor:
    def __init__(self, ast_json, repo_root='/repo'):
        self.docs = load_docs(ast_json)
        self.ix = Index(self.docs)
        self.repo_root = repo_root

    def lower(self, roots, loop_contracts=None, names=None, exclude=(), extern=()):
        L = Lowering(self.ix, names=names)
        L.loop_contracts = loop_contracts or {}
        L.loop_contracts_used = set()
        L.global_of = lambda node: global_of(L, node)
        L.force_extern = set(extern)
        self.L = L
        # roots
        for r in roots:
            kind, _, pat = r.partition(':')
            if kind == 'rec':
                recs = [x for x in L.records.values() if fnmatch.fnmatch(x.cname, pat)]
                if not recs:
                    raise ExtractError('root %s: no record with that C name (have: %s)' % (
                        r, ', '.join(sorted(x.cname for x in L.records.values() if not x.cname.startswith('std_'))[:80])))
                for rec in recs:
                    L.need_record(rec)
                    for m in rec.methods:
                        if has_body(m):
                            f = L.func_of(m['id'])
                            if f.cname not in exclude:
                                L.need_func(f)
            elif kind == 'fn':
                hit = False
                for n in list(self.ix.by_id.values()):
                    if n.get('kind') in FN_KINDS and has_body(n) and not self._is_pattern(n):
                        if fnmatch.fnmatch(L.printed_fn_name(n), pat):
                            f = L.func_of(n['id'])
                            if f.cname not in exclude:
                                L.need_func(f)
                                hit = True
                if not hit:
                    raise ExtractError('root %s: no function definition matches' % r)
            else:
                raise ExtractError('bad root %r' % r)
        bodies = []
        protos = {}
        done = set()
        while L.needed_funcs:
            f = L.needed_funcs.pop(0)
            if f.cname in done:
                continue
            done.add(f.cname)
            if f.cname in L.force_extern:
                fl = FuncLower(L, f)
                f_body, f.body = f.body, None
                proto, _ = fl.lower()
                f.body = f_body
                protos[f.cname] = proto
                continue
            fl = FuncLower(L, f)
            proto, lines = fl.lower()
            protos[f.cname] = proto
            if lines is not None:
                bodies.append((f, proto, lines))
        for cname, f in L.extern_funcs.items():
            if cname not in protos:
                fl = FuncLower(L, f)
                proto, _ = fl.lower()
                protos[cname] = proto
        unused = set(L.loop_contracts) - L.loop_contracts_used
        if unused:
            raise ExtractError('loop contracts for loops that do not exist: %s' % sorted(unused))
        return self._print(L, protos, bodies)

    def _is_pattern(self, n):
        p = self.ix.parent.get(n['id'])
        if p is not None and p.get('kind') == 'FunctionTemplateDecl':
            fns = [c for c in p.get('inner', ()) if c.get('kind') in FN_KINDS]
            return fns and fns[0] is n
        # member of a class template pattern (not a specialization)
        while p is not None:
            if p.get('kind') in ('ClassTemplateDecl', 'ClassTemplatePartialSpecializationDecl'):
                return True
            if p.get('kind') == 'ClassTemplateSpecializationDecl':
                return False
            if p.get('kind') == 'CXXRecordDecl':
                pp = self.ix.parent.get(p['id'])
                if pp is not None and pp.get('kind') == 'ClassTemplateDecl':
                    return True
            p = self.ix.parent.get(p.get('id')) if p.get('id') else None
        return False

    def _print(self, L, protos, bodies):
        out = []
        w = out.append
        w('/* generated by frg2c from the instantiated clang AST; do not edit */')
        # enums
        for i in L.used_enums:
            cname, node = L.enums[i]
            under = node.get('fixedUnderlyingType', {}).get('qualType', 'int')
            ut = L.ty(node['fixedUnderlyingType']) if 'fixedUnderlyingType' in node else ('base', 'int', {})
            w('typedef %s;' % cdecl(ut, cname))
            v = -1
            consts = []
            for c in node.get('inner', ()):
                if c.get('kind') != 'EnumConstantDecl':
                    continue
                val = None
                for ci in c.get('inner', ()):
                    val = self._const(ci)
                v = val if val is not None else v + 1
                consts.append('#define %s_%s ((%s)%d)' % (cname, c['name'], cname, v))
            out.extend(consts)
        # records: forward declarations then definitions in dependency order
        for r in L.record_order:
            w('%s %s;' % ('union' if r.is_union else 'struct', r.cname))
        emitted = set()
        def emit_rec(r):
            if r.cname in emitted:
                return
            emitted.add(r.cname)
            for br, bf in r.bases:
                emit_rec(br)
            for fname, fn, ft in r.fields:
                t = ft
                while t[0] == 'arr':
                    t = t[1]
                if t[0] == 'base' and t[2].get('kind') == 'record':
                    emit_rec(t[2]['rec'])
            f, l, _ = exploc(r.node.get('loc'))
            w('/* %s  (%s:%s) */' % (r.printed, self._rel(f), l))
            w('%s %s {' % ('union' if r.is_union else 'struct', r.cname))
            n = 0
            for br, bf in r.bases:
                if bf:
                    w('\tstruct %s %s;' % (br.cname, bf)); n += 1
            for fname, fn, ft in r.fields:
                t = ('ptr', ft[1]) if is_ref(ft) else ft
                al = ''
                for a in fn.get('inner', ()):
                    if a.get('kind') == 'AlignedAttr':
                        av = self._aligned_value(a)
                        if av:
                            al = ' __attribute__((aligned(%d)))' % av
                w('\t%s%s;' % (cdecl(t, fname), al)); n += 1
            if n == 0:
                w('\tchar __empty;')
            w('};')
        ri = 0
        while ri < len(L.record_order):     # record_order may grow while types are resolved
            emit_rec(L.record_order[ri])
            ri += 1
        # prototypes (may reference records discovered late)
        proto_lines = []
        for cname in sorted(protos):
            proto_lines.append('%s;' % protos[cname])
        # globals
        glob_lines = []
        for _gid, (cname, node) in L.globals.items():
            glob_lines.append(L.global_text[cname])
        body_lines = []
        meta = {}
        for f, proto, lines in bodies:
            rng = f.node.get('range', {})
            fb, lb, ob = exploc(rng.get('begin'))
            fe_, le, oe = exploc(rng.get('end'))
            h = ''
            if fb and ob is not None and oe is not None and os.path.exists(fb):
                tl = rng.get('end', {}).get('tokLen', 1)
                if 'expansionLoc' in rng.get('end', {}):
                    tl = rng['end']['expansionLoc'].get('tokLen', 1)
                h = source_hash(fb, ob, oe + tl)
            meta[f.cname] = {'file': self._rel(fb), 'lines': [lb, le], 'sha256_16': h,
                             'cxx': L.printed_fn_name(f.node), 'loops': L.loops_seen.get(f.cname, 0)}
            body_lines.append('/* from %s:%s-%s sha256:%s  %s */' % (self._rel(fb), lb, le, h, L.printed_fn_name(f.node)))
            body_lines.append(proto)
            body_lines.append('{')
            body_lines.extend(lines)
            body_lines.append('}')
            body_lines.append('')
        # records needed by late discoveries
        while ri < len(L.record_order):
            emit_rec(L.record_order[ri]); ri += 1
        text = '\n'.join(out + [''] + list(L.static_vars.values()) + glob_lines + [''] + proto_lines + [''] + body_lines) + '\n'
        self.meta = meta
        self.externs = sorted(L.extern_funcs)
        self.records_used = [(r.cname, r.printed) for r in L.record_order]
        return text

    def _aligned_value(self, a):
        for c in a.get('inner', ()):
            v = self._const(c)
            if v is not None:
                return v
        return None

    def _const(self, n):
        if not isinstance(n, dict):
            return None
        if 'value' in n and n.get('kind') in ('ConstantExpr', 'IntegerLiteral'):
            try:
                return int(n['value'])
            except (TypeError, ValueError):
                return None
        for c in n.get('inner', ()):
            v = self._const(c)
            if v is not None:
                return v
        return None

    def _rel(self, f):
        if f and f.startswith(self.repo_root + '/'):
            return f[len(self.repo_root) + 1:]
        return f


def global_of(L, node):
    i = node['id']
    if i in L.globals:
        return L.globals[i][0]
    cname = sanitize(L.printed_name(node))
    L.globals[i] = (cname, node)
    if not hasattr(L, 'global_text'):
        L.global_text = {}
    t = L.ty(node['type'])
    init = [c for c in node.get('inner', ()) if c and c.get('kind', '').endswith(('Expr', 'Operator', 'Literal'))]
    if not init:
        # static data member defined out of line? look for a definition redeclaration
        for m in L.ix.by_id.values():
            if m.get('previousDecl') == i and m.get('kind') == 'VarDecl':
                init = [c for c in m.get('inner', ()) if c and c.get('kind', '').endswith(('Expr', 'Operator', 'Literal'))]
                if init:
                    break
    if not init:
        L.global_text[cname] = 'extern %s;' % cdecl(t, cname)
        return cname
    dummy = Func({'id': 'g_' + cname, 'kind': 'FunctionDecl', 'name': cname, 'type': {'qualType': 'void ()'}, 'inner': []},
                 '__global_' + cname, None, 'fn')
    fl = FuncLower(L, dummy)
    if t[0] == 'arr':
        fl.pre, fl.post = [], []
        txt = array_init_text(fl, init[0])
        L.global_text[cname] = 'static const %s = %s;' % (cdecl(t, cname).replace('const ', ''), txt)
        return cname
    with fl.fullexpr() as fe:
        e = fl.expr(init[0])
    if fe.pre or fe.post:
        raise ExtractError('global %s has an initializer that needs temporaries' % cname)
    base_t = cdecl(t).replace('const ', '')
    if re.search(r'[A-Za-z_][A-Za-z_0-9]*\s*\((?!\s*(unsigned|signed|int|long|char|short|size_t|_Bool|uint\d+_t|int\d+_t|uintptr_t)\b)', e.s.replace('sizeof(', 'SIZEOF[').replace('_Alignof(', 'AL[')):
        # initializer calls a (constexpr) function: expand at each use
        L.global_text[cname] = '#define %s ((%s)(%s))' % (cname, base_t, e.s)
    else:
        L.global_text[cname] = 'static const %s %s = %s;' % (base_t, cname, e.s)
    return cname

def array_init_text(fl, n):
    k = n.get('kind')
    if k in ('ExprWithCleanups', 'ConstantExpr', 'ImplicitCastExpr') and k != 'InitListExpr':
        cs = [c for c in n.get('inner', ()) if c]
        return array_init_text(fl, cs[-1])
    if k == 'InitListExpr':
        return '{' + ', '.join(array_init_text(fl, c) for c in n.get('inner', ()) if c) + '}'
    return fl.expr(n).s


def main(argv=None):
    import argparse
    ap = argparse.ArgumentParser()
    ap.add_argument('inst')
    ap.add_argument('-o', '--out', required=True)
    ap.add_argument('-I', action='append', default=[])
    ap.add_argument('--root', action='append', default=[])
    ap.add_argument('--contracts')
    ap.add_argument('--ast')
    ap.add_argument('--meta')
    a = ap.parse_args(argv)
    ast = a.ast or a.out + '.ast.json'
    try:
        if a.inst.endswith('.json'):
            ast = a.inst
        else:
            run_clang(a.inst, a.I or ['/repo/include'], ast)
        ex = Extractor(ast)
        text = ex.lower(a.root, parse_contract_file(a.contracts))
    except ExtractError as e:
        sys.stderr.write('frg2c: extraction aborted: %s\n' % e)
        return 2
    open(a.out, 'w').write(text)
    if a.meta:
        json.dump({'functions': ex.meta, 'externs': ex.externs, 'records': ex.records_used}, open(a.meta, 'w'), indent=1)
    return 0

if __name__ == '__main__':
    sys.exit(main())
