"""Load clang -ast-dump=json output (several concatenated documents), resolve the
delta-compressed source locations, and index declarations."""
import json, subprocess, os, hashlib, sys

class ExtractError(Exception):
    pass

def run_clang(inst_cpp, include_dirs, out_json, extra=()):
    cmd = ['clang++', '-std=c++20', '-fsyntax-only', '-Wno-everything',
           '-Xclang', '-ast-dump=json', '-Xclang', '-ast-dump-filter=frg']
    for d in include_dirs:
        cmd += ['-I', d]
    cmd += list(extra) + [inst_cpp]
    with open(out_json, 'w') as f:
        r = subprocess.run(cmd, stdout=f, stderr=subprocess.PIPE, text=True)
    if r.returncode != 0:
        raise ExtractError('clang failed on %s:\n%s' % (inst_cpp, r.stderr[-4000:]))
    return cmd

def load_docs(path):
    s = open(path).read()
    dec = json.JSONDecoder()
    i = 0
    n = len(s)
    docs = []
    while i < n:
        while i < n and s[i].isspace():
            i += 1
        if i >= n:
            break
        if s[i] != '{':
            j = s.find('\n', i)
            i = n if j < 0 else j + 1
            continue
        d, i = dec.raw_decode(s, i)
        docs.append(d)
    return docs

class Index:
    def __init__(self, docs):
        self.docs = docs
        self.by_id = {}
        self.parent = {}
        self._file = None
        self._line = None
        for d in docs:
            self._file = None
            self._line = None
            self._walk(d, None)

    def _fixloc(self, loc):
        if not isinstance(loc, dict):
            return
        for k in ('spellingLoc', 'expansionLoc'):
            if k in loc:
                self._fixloc(loc[k])
        if 'spellingLoc' in loc or 'expansionLoc' in loc:
            return
        if 'file' in loc:
            self._file = loc['file']
        elif 'offset' in loc:
            loc['file'] = self._file
        if 'line' in loc:
            self._line = loc['line']
        elif 'offset' in loc:
            loc['line'] = self._line

    def _walk(self, n, parent):
        if 'loc' in n:
            self._fixloc(n['loc'])
        if 'range' in n:
            self._fixloc(n['range'].get('begin'))
            self._fixloc(n['range'].get('end'))
        i = n.get('id')
        if i is not None:
            old = self.by_id.get(i)
            # keep the richer node (one with 'inner') when a decl is dumped twice
            if old is None or (len(old.get('inner', ())) < len(n.get('inner', ()))):
                self.by_id[i] = n
                if parent is not None:
                    self.parent[i] = parent
            elif parent is not None and i not in self.parent:
                self.parent[i] = parent
        for c in n.get('inner', ()):
            if isinstance(c, dict) and c:
                self._walk(c, n)

def exploc(loc):
    """(file, line, offset) of a location, preferring the expansion location."""
    if loc is None:
        return (None, None, None)
    if 'expansionLoc' in loc:
        loc = loc['expansionLoc']
    return (loc.get('file'), loc.get('line'), loc.get('offset'))

def spellloc(loc):
    if loc is None:
        return (None, None, None)
    if 'spellingLoc' in loc:
        loc = loc['spellingLoc']
    return (loc.get('file'), loc.get('line'), loc.get('offset'))

_src_cache = {}
def source_text(file, off_begin, off_end):
    if file not in _src_cache:
        with open(file, 'rb') as f:
            _src_cache[file] = f.read()
    return _src_cache[file][off_begin:off_end]

def source_hash(file, off_begin, off_end):
    return hashlib.sha256(source_text(file, off_begin, off_end)).hexdigest()[:16]
