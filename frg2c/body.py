"""Statement and expression lowering for one function."""
import re
from .astload import ExtractError, exploc
from .ctypes_ import cdecl, is_ref, strip_ref
from .lower import E, addr, deref, sanitize, ATOMIC_METHODS

def kids(n):
    return [c for c in n.get('inner', ())]

INT_SUFFIX = {'int': '', 'unsigned int': 'U', 'long': 'L', 'unsigned long': 'UL', 'long long': 'LL',
              'unsigned long long': 'ULL', '__int128': '', 'unsigned __int128': ''}

class Scope:
    def __init__(self, kind):
        self.kind = kind        # 'fn' 'block' 'loop' 'switch'
        self.dtors = []         # list of C statements to run at exit, in construction order

from .exprs import ExprMixin

class FuncLower(ExprMixin):
    def __init__(self, L, f):
        self.L = L
        self.f = f
        self.lines = []
        self.ind = 1
        self.scopes = []
        self.tmpn = 0
        self.pre = None
        self.post = None
        self.locals = {}        # decl id -> (cname, type, is_ref)
        self.local_names = set()
        self.loop_ord = 0
        self.ret_t = None
        self.sret = False
        self.array_index = []   # stack of index variable names for ArrayInitLoopExpr
        self.opaque = {}        # OpaqueValueExpr id -> E
        self.ret_void = False

    # ------------------------------------------------------------------ utilities
    def err(self, n, msg):
        f, l, _ = exploc(n.get('range', {}).get('begin')) if isinstance(n, dict) else (None, None, None)
        raise ExtractError('%s: %s [%s at %s:%s] in %s' % (self.f.cname, msg, n.get('kind') if isinstance(n, dict) else n,
                                                         f, l, self.f.node.get('name')))

    def emit(self, s):
        self.lines.append('\t' * self.ind + s)

    def tmp(self, prefix='__t'):
        self.tmpn += 1
        return '%s%d' % (prefix, self.tmpn)

    def ty(self, n):
        return self.L.ty(n['type'])

    def uniq(self, name):
        base = name if name else '__anon'
        if base in ('this',):
            base = base + '_'
        c = base
        k = 1
        while c in self.local_names or c in C_KEYWORDS:
            k += 1
            c = '%s_%d' % (base, k)
        self.local_names.add(c)
        return c

    # -- full-expression bracket: collects hoisted pre-statements and post (temp destructor) statements
    class _FE:
        def __init__(self, fl):
            self.fl = fl
        def __enter__(self):
            self.saved = (self.fl.pre, self.fl.post)
            self.fl.pre = []
            self.fl.post = []
            return self
        def __exit__(self, *a):
            self.pre, self.post = self.fl.pre, self.fl.post
            self.fl.pre, self.fl.post = self.saved
            return False

    def fullexpr(self):
        return FuncLower._FE(self)

    def flush_pre(self, fe):
        for s in fe.pre:
            self.emit(s)

    def flush_post(self, fe):
        for s in reversed(fe.post):
            self.emit(s)

    def hoist(self, s):
        if self.pre is None:
            raise ExtractError('%s: hoisting outside a full-expression: %s' % (self.f.cname, s))
        self.pre.append(s)

    # ------------------------------------------------------------------ function
    def lower(self):
        L = self.L
        f = self.f
        n = f.node
        L.local_typedefs = {}
        L.current_rec = f.rec
        fty = L.fn_type(n)
        if fty[0] != 'fn':
            self.err(n, 'function type expected, got %r' % (fty,))
        self.ret_t = fty[1]
        rrec = L.rec_of_type(self.ret_t) if not is_ref(self.ret_t) else None
        self.sret = rrec is not None and not L.regpass(rrec)
        params = []
        if self.sret:
            params.append(cdecl(('ptr', self.ret_t), '__ret'))
            self.local_names.add('__ret')
        if f.rec is not None and not f.is_static:
            params.append('struct %s *this' % f.rec.cname if not f.rec.is_union else 'union %s *this' % f.rec.cname)
            self.local_names.add('this')
        for p in f.params:
            pt = L.ty(p['type'])
            nm = self.uniq(p.get('name') or '__p')
            prec = L.rec_of_type(pt) if not is_ref(pt) else None
            byptr = prec is not None and not L.regpass(prec)
            if is_ref(pt):
                self.locals[p['id']] = (nm, pt, True)
                params.append(cdecl(('ptr', pt[1]), nm))
            elif byptr:
                self.locals[p['id']] = (nm, ('ref', pt), True)
                params.append(cdecl(('ptr', pt), nm))
            else:
                if pt[0] == 'arr':
                    pt = ('ptr', pt[1])
                self.locals[p['id']] = (nm, pt, False)
                params.append(cdecl(pt, nm))
        if fty[3]:
            params.append('...')
        if f.kind in ('ctor', 'dtor'):
            rt = 'void'
            self.ret_void = True
        elif self.sret:
            rt = 'void'
        else:
            rt = None
        ret_c = self.ret_t if not is_ref(self.ret_t) else ('ptr', self.ret_t[1])
        if rt is None:
            proto = cdecl(ret_c, '%s(%s)' % (f.cname, ', '.join(params) or 'void'))
        else:
            proto = 'void %s(%s)' % (f.cname, ', '.join(params) or 'void')
        if ret_c == ('base', 'void', {'kind': 'builtin'}) or (ret_c[0] == 'base' and ret_c[1] == 'void'):
            self.ret_void = True
        self.proto = proto
        if n.get('name') == '__invoke' and f.rec is not None and f.rec.is_lambda:
            return proto, self.synth_invoke()
        if f.body is None and not (f.kind == 'dtor' and L._synthesizable(f)):
            return proto, None
        self.scopes.append(Scope('fn'))
        self.collect_local_typedefs(f.node)
        if f.kind == 'ctor':
            self.lower_ctor_inits()
        if f.body is not None:
            self.block_body(f.body)
        if f.kind == 'dtor':
            self.synth_member_dtors()
        sc = self.scopes.pop()
        for d in reversed(sc.dtors):
            self.emit(d)
        if not self.ret_void and not self.sret and f.body is not None and not self._ends_with_return(f.body) \
                and f.node.get('name') != 'main':
            self.emit('FRGV_MISSING_RETURN("%s");' % f.cname)
        return proto, self.lines

    def synth_invoke(self):
        """body of a captureless lambda's static invoker: call operator() on an (empty) closure object"""
        L = self.L
        rec = self.f.rec
        ops = [m for m in rec.methods if m.get('name') == 'operator()' and
               any(c.get('kind') == 'CompoundStmt' for c in m.get('inner', ()))]
        if len(ops) != 1:
            raise ExtractError('%s: cannot find the call operator of the lambda' % self.f.cname)
        op = L.func_of(ops[0]['id'])
        L.need_func(op)
        args = ['(&__closure)'] + [self.locals[p['id']][0] for p in self.f.params]
        lines = ['\tstruct %s __closure;' % rec.cname]
        call = '%s(%s)' % (op.cname, ', '.join(args))
        lines.append('\t%s%s;' % ('' if self.ret_void else 'return ', call))
        return lines

    def _deduce_return_type(self, n):
        def walk(x):
            for c in x.get('inner', ()):
                if not isinstance(c, dict):
                    continue
                if c.get('kind') == 'ReturnStmt':
                    es = [e for e in c.get('inner', ()) if e]
                    if es and 'type' in es[0]:
                        try:
                            return self.L.ty(es[0]['type'])
                        except ExtractError:
                            pass
                if c.get('kind') != 'LambdaExpr':
                    r = walk(c)
                    if r is not None:
                        return r
            return None
        return walk(n)

    def collect_local_typedefs(self, n):
        lt = {}
        def walk(x):
            for c in x.get('inner', ()):
                if not isinstance(c, dict):
                    continue
                if c.get('kind') in ('TypeAliasDecl', 'TypedefDecl') and 'name' in c:
                    t = c['type']
                    lt[c['name']] = t.get('desugaredQualType') or t['qualType']
                if c.get('kind') == 'EnumDecl' and c.get('name') and c.get('id') in self.L.enums:
                    lt[c['name']] = self.L.printed_name(c)
                if c.get('kind') not in ('LambdaExpr',):
                    walk(c)
        walk(n)
        self.L.local_typedefs = lt

    def _ends_with_return(self, body):
        ks = [c for c in kids(body) if c]
        if not ks:
            return False
        last = ks[-1]
        k = last.get('kind')
        if k == 'ReturnStmt':
            return True
        if k == 'CompoundStmt':
            return self._ends_with_return(last)
        if k == 'IfStmt':
            cs = kids(last)
            # cond, then, else
            parts = [c for c in cs if c]
            if last.get('hasElse') and len(parts) >= 3:
                return self._stmt_returns(parts[-2]) and self._stmt_returns(parts[-1])
            return False
        if k == 'WhileStmt':
            cs = kids(last)
            c = cs[0] if cs else {}
            return c.get('kind') == 'CXXBoolLiteralExpr' and c.get('value') is True
        if k == 'ForStmt':
            cs = kids(last)
            return len(cs) >= 3 and not cs[2]
        if k == 'SwitchStmt' or k == 'DoStmt':
            return True   # be permissive: do not report
        if k == 'CallExpr' or k == 'ExprWithCleanups':
            return self._is_noreturn_call(last)
        return False

    def _stmt_returns(self, s):
        if s.get('kind') == 'ReturnStmt':
            return True
        if s.get('kind') == 'CompoundStmt':
            return self._ends_with_return(s)
        if s.get('kind') == 'IfStmt':
            return self._ends_with_return({'inner': [s]})
        return False

    def _is_noreturn_call(self, n):
        txt = str(n)
        return '__builtin_trap' in txt or '__builtin_unreachable' in txt

    # ------------------------------------------------------------------ ctor / dtor pieces
    def lower_ctor_inits(self):
        L = self.L
        rec = self.f.rec
        for ci in self.f.inits:
            init = [c for c in kids(ci) if c]
            init = init[0] if init else None
            if 'anyInit' in ci:
                fd = ci['anyInit']
                fname, ft = self.field_of(rec, fd['id'])
                target = E('this->%s' % fname)
                if init is not None and init.get('kind') == 'CXXDefaultInitExpr':
                    init = self.field_default_init(rec, fd['id'], init)
                self.init_object(target, ft, init, is_field=True)
            elif 'baseInit' in ci:
                bt = L.ty(ci['baseInit'])
                br = L.rec_of_type(bt)
                bf = None
                for b in rec.bases:
                    if b[0] is br:
                        bf = b
                if bf is None:
                    self.err(ci, 'base initializer for unknown base')
                if bf[1] is None:
                    tgt = E('(*(struct %s *)this)' % br.cname, '((struct %s *)this)' % br.cname)
                else:
                    tgt = E('this->%s' % bf[1])
                self.init_object(tgt, bt, init, is_field=True)
            elif 'delegatingInit' in ci:
                with self.fullexpr() as fe:
                    self.expr_into(init, 'this')
                self.flush_pre(fe); self.flush_post(fe)
            else:
                self.err(ci, 'unknown ctor initializer')

    def field_default_init(self, rec, fid, n):
        for fl in rec.fields:
            if fl[1]['id'] == fid:
                ini = [c for c in kids(fl[1]) if c and not c.get('kind', '').endswith('Attr')]
                if ini:
                    return ini[0]
        self.err(n, 'default member initializer not found')

    def field_of(self, rec, fid):
        for fl in rec.fields:
            if fl[1]['id'] == fid:
                return fl[0], fl[2]
        # anonymous struct/union members (IndirectFieldDecl) are not supported
        raise ExtractError('%s: field id %s not found in %s' % (self.f.cname, fid, rec.printed))

    def synth_member_dtors(self):
        L = self.L
        rec = self.f.rec
        for fname, fn, ft in reversed(rec.fields):
            self.destroy_object('this->%s' % fname, ft)
        for br, bf in reversed(rec.bases):
            if L.nontrivial_dtor(br):
                p = '(&this->%s)' % bf if bf else '((struct %s *)this)' % br.cname
                self.emit('%s;' % self.dtor_call(br, p))

    def dtor_call(self, rec, ptr):
        L = self.L
        d = None
        for m in rec.methods:
            if m.get('kind') == 'CXXDestructorDecl':
                d = m
        if d is None:
            # implicit destructor never declared in the AST: synthesize one
            d = {'id': 'synth_dtor_' + rec.cname, 'kind': 'CXXDestructorDecl', 'name': '~', 'isImplicit': True,
                 'type': {'qualType': 'void () noexcept'}, 'inner': []}
            L.ix.by_id[d['id']] = d
            L.ix.parent[d['id']] = rec.node
            rec.methods.append(d)
        f = L.func_of(d['id'])
        L.need_func(f)
        return '%s(%s)' % (f.cname, ptr)

    def destroy_object(self, lv, t, emit=None):
        """emit destructor call(s) for object lv of type t, if non-trivial"""
        L = self.L
        emit = emit or self.emit
        if is_ref(t):
            return
        if t[0] == 'arr':
            r = L.rec_of_type(self._elem(t))
            if r is not None and L.nontrivial_dtor(r):
                i = self.tmp('__i')
                n = self._arr_total(t)
                emit('for (size_t %s = %d; %s-- > 0; ) { %s; }' % (
                    i, n, i, self.dtor_call(r, '(&((%s)%s)[%s])' % (cdecl(('ptr', self._elem(t))), lv, i))))
            return
        r = L.rec_of_type(t)
        if r is not None and L.nontrivial_dtor(r):
            emit('%s;' % self.dtor_call(r, '(&%s)' % lv))

    def _elem(self, t):
        while t[0] == 'arr':
            t = t[1]
        return t

    def _arr_total(self, t):
        n = 1
        while t[0] == 'arr':
            n *= t[2]
            t = t[1]
        return n

    # ------------------------------------------------------------------ statements
    def block_body(self, comp):
        for s in kids(comp):
            if s:
                self.stmt(s)

    def open_scope(self, kind='block'):
        self.scopes.append(Scope(kind))

    def close_scope(self, run=True):
        sc = self.scopes.pop()
        if run:
            for d in reversed(sc.dtors):
                self.emit(d)

    def unwind_to(self, kinds):
        """emit destructor calls for all scopes up to and including the innermost of kind in kinds"""
        for sc in reversed(self.scopes):
            for d in reversed(sc.dtors):
                self.emit(d)
            if sc.kind in kinds:
                return
        if 'fn' not in kinds:
            raise ExtractError('%s: break/continue outside loop' % self.f.cname)

    def stmt(self, n):
        k = n.get('kind')
        m = getattr(self, 'st_' + k, None)
        if m is not None:
            return m(n)
        # expression statement
        if k.endswith('Expr') or k.endswith('Operator') or k.endswith('Literal') or k in ('ExprWithCleanups',):
            frg = self.match_frg_assert_expr(n)
            with self.fullexpr() as fe:
                e = self.expr(n, discard=True)
            self.flush_pre(fe)
            if e is not None and e.s:
                self.emit('%s;' % e.s)
            self.flush_post(fe)
            return
        self.err(n, 'unsupported statement kind')

    def st_CompoundStmt(self, n):
        self.emit('{')
        self.ind += 1
        self.open_scope()
        self.block_body(n)
        self.close_scope()
        self.ind -= 1
        self.emit('}')

    def st_NullStmt(self, n):
        self.emit(';')

    def st_AttributedStmt(self, n):
        for c in kids(n):
            if c and not c.get('kind', '').endswith('Attr'):
                self.stmt(c)

    def st_DeclStmt(self, n):
        for d in kids(n):
            k = d.get('kind')
            if k == 'VarDecl':
                self.var_decl(d)
            elif k in ('TypeAliasDecl', 'TypedefDecl', 'StaticAssertDecl', 'UsingDecl', 'CXXRecordDecl',
                       'UsingDirectiveDecl', 'EnumDecl', 'UsingEnumDecl'):
                pass
            else:
                self.err(d, 'unsupported declaration in DeclStmt')

    def var_decl(self, d):
        L = self.L
        init = [c for c in kids(d) if c and not c.get('kind', '').endswith('Attr')]
        init = init[0] if init else None
        t = None
        # lambda variables: take the closure record from the initializer (names may be ambiguous)
        if init is not None:
            lam = self._find_lambda(init)
            if lam is not None:
                r = L.records.get(kids(lam)[0]['id'])
                if r is not None:
                    L.need_record(r)
                    t = ('base', 'struct ' + r.cname, {'kind': 'record', 'rec': r})
        if t is None:
            t = L.ty(d['type'])
        nm = self.uniq(d.get('name'))
        if d.get('storageClass') == 'static':
            return self.static_local(d, nm, t, init)
        if is_ref(t):
            self.locals[d['id']] = (nm, t, True)
            with self.fullexpr() as fe:
                e = self.expr(init, want_lvalue=True)
                p = addr(e)
            self.flush_pre(fe)
            self.emit('%s = %s;' % (cdecl(('ptr', t[1]), nm), p))
            # temporaries bound to the reference are lifetime-extended: destroy at scope exit
            for s in fe.post:
                self.scopes[-1].dtors.append(s)
            return
        self.locals[d['id']] = (nm, t, False)
        self.emit('%s;' % cdecl(t, nm))
        if L.rec_of_type(self._elem(t)) is not None:
            self.emit('FRGV_RAW_STORAGE(%s);' % nm)
        if init is not None:
            self.init_object(E(nm), t, init)
        r = L.rec_of_type(t) if t[0] != 'arr' else L.rec_of_type(self._elem(t))
        if r is not None and L.nontrivial_dtor(r):
            self.destroy_object(nm, t, emit=self.scopes[-1].dtors.append)

    def static_local(self, d, nm, t, init):
        L = self.L
        g = '%s__%s' % (self.f.cname, nm)
        self.locals[d['id']] = (g, t, False)
        txt = None
        if init is not None:
            with self.fullexpr() as fe:
                e = self.expr(init)
            if fe.pre or fe.post:
                self.err(d, 'static local with non-constant initializer')
            txt = e.s
        L.static_vars[g] = 'static %s%s;' % (cdecl(t, g), ' = ' + txt if txt else '')

    def _find_lambda(self, n):
        k = n.get('kind')
        if k == 'LambdaExpr':
            return n
        if k in ('ExprWithCleanups', 'CXXBindTemporaryExpr', 'MaterializeTemporaryExpr', 'ImplicitCastExpr',
                 'CXXConstructExpr', 'ParenExpr', 'CXXFunctionalCastExpr'):
            cs = [c for c in kids(n) if c]
            if len(cs) == 1:
                return self._find_lambda(cs[0])
        return None

    def init_object(self, target, t, init, is_field=False):
        """initialise object `target` (an lvalue E) of type t from initializer expression init"""
        L = self.L
        if init is None:
            return
        if is_ref(t):
            with self.fullexpr() as fe:
                e = self.expr(init, want_lvalue=True)
                p = addr(e)
            self.flush_pre(fe)
            self.emit('%s = %s;' % (target.s, p))
            self.flush_post(fe)
            return
        rec = L.rec_of_type(t)
        if rec is not None:
            with self.fullexpr() as fe:
                self.expr_into(init, addr(target))
            self.flush_pre(fe); self.flush_post(fe)
            return
        if t[0] == 'arr':
            return self.init_array(target, t, init)
        if self._unwrap(init).get('kind') in ('CXXConstructExpr', 'CXXTemporaryObjectExpr'):
            with self.fullexpr() as fe:
                self.expr_into(self._unwrap(init), addr(target))
            self.flush_pre(fe); self.flush_post(fe)
            return
        with self.fullexpr() as fe:
            e = self.expr(init)
        self.flush_pre(fe)
        self.emit('%s = %s;' % (target.s, e.s))
        self.flush_post(fe)

    def init_array(self, target, t, init):
        L = self.L
        k = init.get('kind')
        if k in ('ExprWithCleanups', 'ParenExpr'):
            return self.init_array(target, t, [c for c in kids(init) if c][0])
        et = t[1]
        if k == 'InitListExpr':
            items = [c for c in kids(init) if c]
            filler = None
            if 'array_filler' in init:
                filler = init['array_filler'][0] if isinstance(init['array_filler'], list) else None
                items = [c for c in init.get('array_filler', ()) if c and c.get('kind') != 'ImplicitValueInitExpr'] \
                    if False else items
            for i, it in enumerate(items):
                self.init_object(E('%s[%d]' % (target.s, i)), et, it)
            for i in range(len(items), t[2] or 0):
                self.zero_init('%s[%d]' % (target.s, i), et)
            return
        if k == 'ImplicitValueInitExpr' or k == 'CXXScalarValueInitExpr':
            for i in range(t[2] or 0):
                self.zero_init('%s[%d]' % (target.s, i), et)
            return
        if k == 'ArrayInitLoopExpr':
            cs = kids(init)
            ov, sub = cs[0], cs[1]
            with self.fullexpr() as fe:
                src = self.expr(kids(ov)[0], want_lvalue=True)
            self.flush_pre(fe)
            self.opaque[ov['id']] = src
            i = self.tmp('__i')
            self.emit('for (size_t %s = 0; %s < %d; %s++) {' % (i, i, t[2], i))
            self.ind += 1
            self.array_index.append(i)
            self.init_object(E('%s[%s]' % (target.s, i)), et, sub)
            self.array_index.pop()
            self.ind -= 1
            self.emit('}')
            return
        if k == 'StringLiteral':
            with self.fullexpr() as fe:
                e = self.expr(init)
            self.emit('memcpy(%s, %s, sizeof(%s));' % (target.s, e.s, target.s))
            return
        if k == 'CXXConstructExpr':
            # array of class objects default-constructed
            r = L.rec_of_type(self._elem(t))
            i = self.tmp('__i')
            self.emit('for (size_t %s = 0; %s < %d; %s++) {' % (i, i, self._arr_total(t), i))
            self.ind += 1
            with self.fullexpr() as fe:
                self.expr_into(init, '(&((%s)%s)[%s])' % (cdecl(('ptr', self._elem(t))), target.s, i))
            self.flush_pre(fe); self.flush_post(fe)
            self.ind -= 1
            self.emit('}')
            return
        self.err(init, 'unsupported array initializer')

    def zero_init(self, lv, t):
        if t[0] == 'arr':
            for i in range(t[2] or 0):
                self.zero_init('%s[%d]' % (lv, i), t[1])
        elif self.L.rec_of_type(t) is not None and not is_ref(t):
            self.emit('memset(&%s, 0, sizeof(%s));' % (lv, lv))
        else:
            self.emit('%s = 0;' % lv)

    def st_ReturnStmt(self, n):
        L = self.L
        cs = [c for c in kids(n) if c]
        if not cs:
            self.unwind_to(('fn',))
            self.emit('return;')
            return
        v = cs[0]
        if self.ret_void:
            with self.fullexpr() as fe:
                e = self.expr(v, discard=True)
            self.flush_pre(fe)
            if e is not None and e.s:
                self.emit('%s;' % e.s)
            self.flush_post(fe)
            self.unwind_to(('fn',))
            self.emit('return;')
            return
        if self.sret:
            with self.fullexpr() as fe:
                self.expr_into(v, '__ret')
            self.flush_pre(fe); self.flush_post(fe)
            self.unwind_to(('fn',))
            self.emit('return;')
            return
        has_dtors = any(sc.dtors for sc in self.scopes)
        with self.fullexpr() as fe:
            if is_ref(self.ret_t):
                e = self.expr(v, want_lvalue=True)
                val = addr(e)
                rt = ('ptr', self.ret_t[1])
            else:
                e = self.expr(v)
                val = e.s
                rt = self.ret_t
        self.flush_pre(fe)
        if has_dtors or fe.post:
            r = self.tmp('__r')
            self.emit('%s = %s;' % (cdecl(rt, r), val))
            self.flush_post(fe)
            self.unwind_to(('fn',))
            self.emit('return %s;' % r)
        else:
            self.emit('return %s;' % val)

    def lower_cond(self, c):
        """lower a condition once; returns (captured full-expression, C text)"""
        with self.fullexpr() as fe:
            e = self.expr(c)
        return fe, e.s

    def emit_cond(self, fe, s):
        if fe.pre or fe.post:
            self.flush_pre(fe)
            t = self.uniq(self.tmp('__c'))
            self.emit('_Bool %s = %s;' % (t, s))
            self.flush_post(fe)
            return t
        return s

    def st_IfStmt(self, n):
        cs = kids(n)
        idx = 0
        has_init = n.get('hasInit')
        has_var = n.get('hasVar')
        opened = False
        if has_init or has_var:
            self.emit('{'); self.ind += 1; self.open_scope(); opened = True
        if has_init:
            self.stmt(cs[idx]); idx += 1
        if has_var:
            self.stmt(cs[idx]); idx += 1   # the DeclStmt; the condition expression follows
        cond = cs[idx]; idx += 1
        then = cs[idx] if idx < len(cs) else None; idx += 1
        els = cs[idx] if idx < len(cs) else None
        if n.get('isConstexpr'):
            v = self.const_value(cond)
            if v is None:
                self.err(n, 'if constexpr condition is not folded')
            br = then if v else els
            if br:
                self.stmt_as_block(br)
        else:
            # pre-statements of the condition must be emitted before the 'if'
            fe, cs_ = self.lower_cond(cond)
            if (fe.pre or fe.post) and not opened:
                self.emit('{'); self.ind += 1; self.open_scope(); opened = True
            cv = self.emit_cond(fe, cs_)
            self.emit('if (%s)' % cv)
            self.stmt_as_block(then)
            if els:
                self.emit('else')
                self.stmt_as_block(els)
        if opened:
            self.close_scope(); self.ind -= 1; self.emit('}')

    def stmt_as_block(self, s):
        if s is None or not s:
            self.emit('{ }')
            return
        if s.get('kind') == 'CompoundStmt':
            self.stmt(s)
        else:
            self.emit('{'); self.ind += 1; self.open_scope()
            self.stmt(s)
            self.close_scope(); self.ind -= 1; self.emit('}')

    def const_value(self, n):
        k = n.get('kind')
        if k == 'ConstantExpr' and 'value' in n:
            return int(n['value']) if str(n['value']).lstrip('-').isdigit() else (1 if n['value'] in ('true', True) else 0)
        if k == 'CXXBoolLiteralExpr':
            return 1 if n.get('value') else 0
        if k == 'IntegerLiteral':
            return int(n['value'])
        if k in ('ImplicitCastExpr', 'ParenExpr', 'ConstantExpr', 'SubstNonTypeTemplateParmExpr'):
            cs = [c for c in kids(n) if c]
            if cs:
                return self.const_value(cs[-1])
        return None

    def loop_contract(self):
        key = (self.f.cname, self.loop_ord)
        self.loop_ord += 1
        self.L.loops_seen[self.f.cname] = self.loop_ord
        txt = self.L.loop_contracts.get(key)
        if txt is not None:
            self.L.loop_contracts_used.add(key)
            for ln in txt.strip().split('\n'):
                self.emit(ln)

    def st_WhileStmt(self, n):
        cs = kids(n)
        cond, body = cs[0], cs[1] if len(cs) > 1 else None
        if cond.get('kind') == 'DeclStmt':
            self.err(n, 'while with declaration condition')
        fe, cs_ = self.lower_cond(cond)
        if not (fe.pre or fe.post):
            self.emit('while (%s)' % cs_)
            self.loop_contract()
            self.scopes.append(Scope('loop'))
            self.stmt_as_block(body)
            self.scopes.pop()
        else:
            self.emit('while (1)')
            self.loop_contract()
            self.emit('{'); self.ind += 1
            self.scopes.append(Scope('loop'))
            cv = self.emit_cond(fe, cs_)
            self.emit('if (!(%s)) break;' % cv)
            self.stmt_as_block(body)
            self.scopes.pop()
            self.ind -= 1; self.emit('}')

    def st_DoStmt(self, n):
        cs = kids(n)
        body, cond = cs[0], cs[1]
        m = self.match_frg_assert(n)
        if m is not None:
            return self.emit_frg_assert(*m)
        fe, cs_ = self.lower_cond(cond)
        if fe.pre or fe.post:
            self.err(n, 'do-while condition needs temporaries')
        self.emit('do')
        self.scopes.append(Scope('loop'))
        self.stmt_as_block(body)
        self.scopes.pop()
        self.emit('while (%s)' % cs_)
        self.loop_contract()
        self.emit(';')

    def st_ForStmt(self, n):
        cs = kids(n)
        init, condvar, cond, inc, body = (cs + [None] * 5)[:5]
        self.emit('{'); self.ind += 1; self.open_scope()
        if init:
            self.stmt(init)
        if condvar:
            self.err(n, 'for with condition variable')
        incs = ''
        if inc:
            with self.fullexpr() as fe:
                ie = self.expr(inc, discard=True)
            if fe.pre or fe.post:
                self.err(n, 'for increment needs temporaries')
            incs = ie.s if ie is not None else ''
        if cond:
            fe, cs_ = self.lower_cond(cond)
        if not cond or not (fe.pre or fe.post):
            cv = cs_ if cond else '1'     # 'for(;;)' would make CBMC drop the loop contract silently
            self.emit('for (; %s; %s)' % (cv, incs))
            self.loop_contract()
            self.scopes.append(Scope('loop'))
            self.stmt_as_block(body)
            self.scopes.pop()
        else:
            self.emit('for (; 1; %s)' % incs)
            self.loop_contract()
            self.emit('{'); self.ind += 1
            self.scopes.append(Scope('loop'))
            cv = self.emit_cond(fe, cs_)
            self.emit('if (!(%s)) break;' % cv)
            self.stmt_as_block(body)
            self.scopes.pop()
            self.ind -= 1; self.emit('}')
        self.close_scope(); self.ind -= 1; self.emit('}')

    def st_CXXForRangeStmt(self, n):
        cs = kids(n)
        init, rng, beg, end, cond, inc, loopvar, body = (cs + [None] * 8)[:8]
        self.emit('{'); self.ind += 1; self.open_scope()
        for s in (init, rng, beg, end):
            if s:
                self.stmt(s)
        with self.fullexpr() as fe:
            ie = self.expr(inc, discard=True)
        if fe.pre or fe.post:
            self.err(n, 'range-for increment needs temporaries')
        cfe, ccs = self.lower_cond(cond)
        simple = not (cfe.pre or cfe.post)
        if simple:
            self.emit('for (; %s; %s)' % (ccs, ie.s))
            self.loop_contract()
        else:
            self.emit('for (; 1; %s)' % ie.s)
            self.loop_contract()
        self.emit('{'); self.ind += 1
        self.scopes.append(Scope('loop'))
        if not simple:
            self.emit('if (!(%s)) break;' % self.emit_cond(cfe, ccs))
        self.stmt(loopvar)
        if body and body.get('kind') == 'CompoundStmt':
            self.block_body(body)
        elif body:
            self.stmt(body)
        sc = self.scopes.pop()
        for d in reversed(sc.dtors):
            self.emit(d)
        self.ind -= 1; self.emit('}')
        self.close_scope(); self.ind -= 1; self.emit('}')

    def st_BreakStmt(self, n):
        self.unwind_to(('loop', 'switch'))
        self.emit('break;')

    def st_ContinueStmt(self, n):
        self.unwind_to(('loop',))
        self.emit('continue;')

    def st_SwitchStmt(self, n):
        cs = [c for c in kids(n) if c]
        if n.get('hasInit') or n.get('hasVar'):
            self.err(n, 'switch with init/var')
        cond, body = cs[0], cs[1]
        fe, cs_ = self.lower_cond(cond)
        if fe.pre or fe.post:
            self.err(n, 'switch condition needs temporaries')
        self.emit('switch (%s)' % cs_)
        self.scopes.append(Scope('switch'))
        self.stmt_as_block(body)
        self.scopes.pop()

    def st_CaseStmt(self, n):
        cs = [c for c in kids(n) if c]
        v = self.const_value(cs[0])
        if v is None:
            with self.fullexpr() as fe:
                v = self.expr(cs[0]).s
        self.ind -= 1
        self.emit('case %s:' % v)
        self.ind += 1
        if len(cs) > 1:
            self.stmt(cs[-1])
        else:
            self.emit(';')

    def st_DefaultStmt(self, n):
        cs = [c for c in kids(n) if c]
        self.ind -= 1
        self.emit('default:')
        self.ind += 1
        if cs:
            self.stmt(cs[-1])
        else:
            self.emit(';')

    def st_GCCAsmStmt(self, n):
        self.emit('FRGV_ASM();')

    def st_LabelStmt(self, n):
        self.emit('%s: ;' % n['name'])
        for c in kids(n):
            if c:
                self.stmt(c)

    def st_GotoStmt(self, n):
        if any(sc.dtors for sc in self.scopes):
            self.err(n, 'goto across destructors')
        tgt = self.L.ix.by_id.get(n.get('targetLabelDeclId'), {}).get('name')
        self.emit('goto %s;' % tgt)

    # ------------------------------------------------------------------ FRG_ASSERT recognition
    def match_frg_assert(self, n):
        """do { if(!(x)) { if(!frg_panic) trap; frg_panic("msg"); trap; } } while(0)"""
        cs = kids(n)
        body, cond = cs[0], cs[1]
        if self.const_value(cond) != 0:
            return None
        if body.get('kind') != 'CompoundStmt':
            return None
        b = [c for c in kids(body) if c]
        if len(b) != 1 or b[0].get('kind') != 'IfStmt':
            return None
        ic = kids(b[0])
        c0 = ic[0]
        if c0.get('kind') != 'UnaryOperator' or c0.get('opcode') != '!':
            return None
        msg = self._find_panic_msg(ic[1])
        if msg is None:
            return None
        x = kids(c0)[0]
        return (x, msg, n)

    def _find_panic_msg(self, n):
        if not isinstance(n, dict):
            return None
        if n.get('kind') == 'CallExpr':
            cs = kids(n)
            callee = self._strip_casts(cs[0])
            if callee.get('kind') == 'DeclRefExpr' and callee.get('referencedDecl', {}).get('name') == 'frg_panic':
                a = self._strip_casts(cs[1])
                if a.get('kind') == 'StringLiteral':
                    return a['value']
        for c in kids(n):
            r = self._find_panic_msg(c)
            if r is not None:
                return r
        return None

    def _strip_casts(self, n):
        while n.get('kind') in ('ImplicitCastExpr', 'ParenExpr') and kids(n):
            n = kids(n)[0]
        return n

    def emit_frg_assert(self, x, msg, n):
        with self.fullexpr() as fe:
            e = self.expr(x)
        self.flush_pre(fe)
        m = msg.strip('"')
        m = re.sub(r'^.*?include/', 'include/', m)
        self.emit('FRGV_ASSERT(%s, "%s");' % (e.s, m.replace('\\', '\\\\').replace('"', '\\"')))
        self.flush_post(fe)

    def match_frg_assert_expr(self, n):
        return None


C_KEYWORDS = {'auto', 'break', 'case', 'char', 'const', 'continue', 'default', 'do', 'double', 'else', 'enum',
              'extern', 'float', 'for', 'goto', 'if', 'inline', 'int', 'long', 'register', 'restrict', 'return',
              'short', 'signed', 'sizeof', 'static', 'struct', 'switch', 'typedef', 'union', 'unsigned', 'void',
              'volatile', 'while', '_Bool', 'asm', 'typeof', 'main'}
