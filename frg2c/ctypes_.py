"""Parse clang-printed C++ type strings into a small type tree and print C declarators.

Type tree:
  ('base', cname, info)     info: dict(kind='builtin'|'record'|'enum'|'atomic', rec=.., const=bool)
  ('ptr', T)   ('ref', T)   ('rref', T)   ('arr', T, n|None)
  ('fn', ret, [params], variadic)
  ('memptr', ...)           only ever seen folded away; printing it aborts
"""
import re
from .astload import ExtractError

BUILTIN_WORDS = {'unsigned', 'signed', 'int', 'long', 'short', 'char', 'void', 'bool', 'float',
                 'double', '_Bool', '__int128', 'char8_t', 'char16_t', 'char32_t', 'wchar_t'}

STD_MAP = {
    'size_t': 'size_t', 'std::size_t': 'size_t', 'ptrdiff_t': 'ptrdiff_t', 'std::ptrdiff_t': 'ptrdiff_t',
    'uintptr_t': 'uintptr_t', 'std::uintptr_t': 'uintptr_t', 'intptr_t': 'intptr_t', 'std::intptr_t': 'intptr_t',
    'uint8_t': 'uint8_t', 'uint16_t': 'uint16_t', 'uint32_t': 'uint32_t', 'uint64_t': 'uint64_t',
    'int8_t': 'int8_t', 'int16_t': 'int16_t', 'int32_t': 'int32_t', 'int64_t': 'int64_t',
    'std::uint8_t': 'uint8_t', 'std::uint16_t': 'uint16_t', 'std::uint32_t': 'uint32_t', 'std::uint64_t': 'uint64_t',
    'std::int8_t': 'int8_t', 'std::int16_t': 'int16_t', 'std::int32_t': 'int32_t', 'std::int64_t': 'int64_t',
    'uintmax_t': 'uintmax_t', 'intmax_t': 'intmax_t', 'std::uintmax_t': 'uintmax_t', 'std::intmax_t': 'intmax_t',
    'std::nullptr_t': 'void *', 'nullptr_t': 'void *', 'decltype(nullptr)': 'void *',
    'va_list': 'va_list', 'std::va_list': 'va_list', '__builtin_va_list': 'va_list', '__gnuc_va_list': 'va_list',
    'std::memory_order': 'int', 'memory_order': 'int', 'std::max_align_t': 'max_align_t', 'max_align_t': 'max_align_t',
    'std::byte': 'unsigned char', 'wint_t': 'unsigned int', 'std::align_val_t': 'size_t',
    'char8_t': 'unsigned char', 'char16_t': 'uint16_t', 'char32_t': 'uint32_t', 'wchar_t': 'int',
    '__va_list_tag': 'FRGV_VA_LIST_TAG',
}

def split_top(s, sep=','):
    """Split s at top-level separators (not inside <>, (), [])."""
    out = []
    depth = 0
    cur = ''
    i = 0
    while i < len(s):
        c = s[i]
        if c in '<([':
            depth += 1
        elif c in '>)]':
            depth -= 1
        if c == sep and depth == 0:
            out.append(cur.strip())
            cur = ''
        else:
            cur += c
        i += 1
    if cur.strip():
        out.append(cur.strip())
    return out

class TypeParser:
    def __init__(self, resolver):
        # resolver(name) -> type tree for a (possibly qualified, possibly templated) name, or None
        self.resolve = resolver
        self.cache = {}

    def parse(self, s):
        s = s.strip()
        t = self.cache.get(s)
        if t is None:
            # a fresh parser state per string: resolving a name may re-enter parse()
            p = TypeParser(self.resolve)
            p.cache = self.cache
            p.s = s
            p.i = 0
            t = p._type()
            p._ws()
            if p.i != len(p.s):
                raise ExtractError('cannot parse type %r (stopped at %d)' % (s, p.i))
            self.cache[s] = t
        return t

    # -- lexer helpers
    def _ws(self):
        while self.i < len(self.s) and self.s[self.i] == ' ':
            self.i += 1

    def _peek(self, tok):
        self._ws()
        return self.s.startswith(tok, self.i)

    def _eat(self, tok):
        self._ws()
        if self.s.startswith(tok, self.i):
            # keyword boundary for identifiers
            if tok[-1].isalnum() or tok[-1] == '_':
                j = self.i + len(tok)
                if j < len(self.s) and (self.s[j].isalnum() or self.s[j] == '_'):
                    return False
            self.i += len(tok)
            return True
        return False

    def _balanced(self, open_c, close_c):
        assert self.s[self.i] == open_c
        depth = 0
        j = self.i
        while j < len(self.s):
            if self.s[j] == open_c:
                depth += 1
            elif self.s[j] == close_c:
                depth -= 1
                if depth == 0:
                    j += 1
                    break
            j += 1
        r = self.s[self.i:j]
        self.i = j
        return r

    def _name(self):
        """qualified name, template args and '(lambda at ..)' / '(anonymous ..)' components included"""
        self._ws()
        out = ''
        while self.i < len(self.s):
            c = self.s[self.i]
            if c.isalnum() or c == '_' or c == '~':
                j = self.i
                while j < len(self.s) and (self.s[j].isalnum() or self.s[j] == '_' or self.s[j] == '~'):
                    j += 1
                out += self.s[self.i:j]
                self.i = j
            elif c == '<' and out:
                out += self._balanced_angle()
            elif self.s.startswith('::', self.i):
                # member pointer "T::*" is not part of a name
                if self.s.startswith('::*', self.i):
                    break
                out += '::'
                self.i += 2
            elif c == '(' and (self.s.startswith('(lambda at', self.i) or self.s.startswith('(anonymous', self.i)
                               or self.s.startswith('(unnamed', self.i)):
                out += self._balanced('(', ')')
            else:
                break
        return out

    def _balanced_angle(self):
        depth = 0
        j = self.i
        while j < len(self.s):
            c = self.s[j]
            if c == '<':
                depth += 1
            elif c == '>':
                depth -= 1
                if depth == 0:
                    j += 1
                    break
            elif c == '(':
                # skip parenthesised (lambda at ...) etc.
                d2 = 0
                while j < len(self.s):
                    if self.s[j] == '(':
                        d2 += 1
                    elif self.s[j] == ')':
                        d2 -= 1
                        if d2 == 0:
                            break
                    j += 1
            j += 1
        r = self.s[self.i:j]
        self.i = j
        return r

    # -- grammar
    def _cv(self):
        const = False
        while True:
            if self._eat('const'):
                const = True
            elif self._eat('volatile') or self._eat('__restrict') or self._eat('restrict'):
                pass
            else:
                return const

    def _type(self):
        const = self._cv()
        for kw in ('struct', 'class', 'union', 'enum', 'typename'):
            self._eat(kw)
        # builtin multi-word
        self._ws()
        words = []
        save = self.i
        while True:
            self._ws()
            m = re.match(r'[A-Za-z_][A-Za-z_0-9]*', self.s[self.i:])
            if m and m.group(0) in BUILTIN_WORDS and not self.s.startswith('::', self.i + m.end()):
                words.append(m.group(0))
                self.i += m.end()
                c2 = self._cv()
                const = const or c2
            else:
                break
        if words:
            base = self._builtin(words)
        else:
            self.i = save
            if self._peek('decltype(nullptr)'):
                self.i += len('decltype(nullptr)')
                nm = 'decltype(nullptr)'
            else:
                nm = self._name()
            if not nm:
                raise ExtractError('cannot parse type %r at %d' % (self.s, self.i))
            base = self.resolve(nm)
            if base is None:
                raise ExtractError('unknown type name %r (in %r)' % (nm, self.s))
        c2 = self._cv()
        if const or c2:
            base = self._constify(base)
        return self._suffix(base)

    def _constify(self, t):
        if t[0] == 'base':
            info = dict(t[2]); info['const'] = True
            return ('base', t[1], info)
        return t

    def _builtin(self, words):
        w = [x for x in words]
        if w == ['bool']:
            return ('base', '_Bool', {'kind': 'builtin'})
        w = ['_Bool' if x == 'bool' else x for x in w]
        return ('base', ' '.join(w), {'kind': 'builtin'})

    def _suffix(self, t):
        """pointer/reference/array/function suffixes, with parenthesised inner declarators"""
        while True:
            self._ws()
            if self._eat('*'):
                t = ('ptr', t)
                self._cv()
            elif self._eat('&&'):
                t = ('rref', t)
            elif self._eat('&'):
                t = ('ref', t)
            elif self._peek('['):
                dims = []
                while self._peek('['):
                    b = self._balanced('[', ']')[1:-1].strip()
                    dims.append(int(b) if b else None)
                for d in reversed(dims):
                    t = ('arr', t, d)
            elif self._peek('('):
                # either "(*)..." inner declarator or a parameter list
                save = self.i
                self.i += 1
                self._ws()
                if self._peek('*') or self._peek('&') or re.match(r'[A-Za-z_:<>0-9, ]*::\*', self.s[self.i:]):
                    # inner declarator: collect its text, parse the outer suffix first
                    self.i = save
                    inner = self._balanced('(', ')')[1:-1]
                    t = self._suffix_only(t)
                    # now apply the inner declarator to t
                    sub = TypeParser(self.resolve)
                    sub.s = inner
                    sub.i = 0
                    if re.match(r'\s*[A-Za-z_:<>0-9, ]*::\*', inner):
                        return ('memptr', t, inner)
                    t = sub._suffix(t)
                    return t
                else:
                    self.i = save
                    plist = self._balanced('(', ')')[1:-1]
                    params = []
                    variadic = False
                    for p in split_top(plist):
                        if p == '...':
                            variadic = True
                        elif p and p != 'void':
                            params.append(TypeParser(self.resolve).parse(p) if False else self._sub(p))
                    # trailing qualifiers of a function type
                    while True:
                        if self._eat('noexcept'):
                            if self._peek('('):
                                self._balanced('(', ')')
                            continue
                        if self._eat('const') or self._eat('volatile'):
                            continue
                        self._ws()
                        if self._peek('&&') and self.i + 2 >= len(self.s):
                            self.i += 2; continue
                        if self._peek('&') and self.i + 1 >= len(self.s):
                            self.i += 1; continue
                        break
                    t = ('fn', t, params, variadic)
            else:
                return t

    def _suffix_only(self, t):
        return self._suffix(t)

    def _sub(self, p):
        sub = TypeParser(self.resolve)
        sub.cache = self.cache
        return sub.parse(p)


def is_ref(t):
    return t[0] in ('ref', 'rref')

def strip_ref(t):
    return t[1] if is_ref(t) else t

def cdecl(t, name=''):
    """C declarator for type tree t with declared name `name`."""
    k = t[0]
    if k == 'base':
        return (t[1] + (' ' + name if name else '')).strip()
    if k in ('ptr', 'ref', 'rref'):
        inner = t[1]
        if inner[0] in ('arr', 'fn'):
            return cdecl(inner, '(*%s)' % name)
        return cdecl(inner, '*' + name)
    if k == 'arr':
        return cdecl(t[1], '%s[%s]' % (name, '' if t[2] is None else t[2]))
    if k == 'fn':
        ps = ', '.join(cdecl(p) for p in t[2])
        if t[3]:
            ps = ps + ', ...' if ps else '...'
        if not ps:
            ps = 'void'
        return cdecl(t[1], '%s(%s)' % (name, ps))
    raise ExtractError('cannot print type %r' % (t,))

def base_info(t):
    while t[0] in ('arr',):
        t = t[1]
    if t[0] == 'base':
        return t[2]
    return {}
