"""frg2c: lower the instantiated clang AST of a frigg unit to C.

The C text is a compiler-pass image of the instantiated C++ functions: no function body is typed by
hand.  Anything this pass does not know how to lower aborts the extraction (ExtractError -> exit 2).
See DESIGN.md section 3 for the lowering rules and for what is dropped.
"""
import re, os, hashlib
from .astload import ExtractError, exploc, spellloc, source_text
from .ctypes_ import TypeParser, cdecl, is_ref, strip_ref, STD_MAP, split_top

OPNAMES = {
    '[]': 'op_index', '()': 'op_call', '->': 'op_arrow', '*': 'op_star', '==': 'op_eq', '!=': 'op_ne',
    '<': 'op_lt', '>': 'op_gt', '<=': 'op_le', '>=': 'op_ge', '<=>': 'op_cmp3', '<<': 'op_shl', '>>': 'op_shr',
    '<<=': 'op_shl_assign', '>>=': 'op_shr_assign', '~': 'op_compl', '!': 'op_not', '++': 'op_inc',
    '--': 'op_dec', '+=': 'op_add_assign', '-=': 'op_sub_assign', '+': 'op_add', '-': 'op_sub',
    '&=': 'op_and_assign', '|=': 'op_or_assign', '^=': 'op_xor_assign', '&': 'op_and', '|': 'op_or',
    '^': 'op_xor', '=': 'assign', '/': 'op_div', '%': 'op_mod', '*=': 'op_mul_assign', '&&': 'op_land',
    '||': 'op_lor', ',': 'op_comma', '->*': 'op_arrowstar', '/=': 'op_div_assign', '%=': 'op_mod_assign',
}

ATOMIC_METHODS = {'load', 'store', 'exchange', 'fetch_add', 'fetch_sub', 'fetch_and', 'fetch_or', 'fetch_xor',
                  'compare_exchange_strong', 'compare_exchange_weak', 'operator=', 'operator++', 'operator--',
                  'operator+=', 'operator-=', 'operator T', 'is_lock_free'}

def sanitize(s):
    s = s.replace('(anonymous namespace)', 'anon')
    s = re.sub(r'\(lambda at [^)]*?([A-Za-z0-9_]+)\.[a-z]+:(\d+):(\d+)\)', r'lambda_\1_\2_\3', s)
    s = s.replace('::', '_').replace('&', 'R').replace('*', 'P')
    s = re.sub(r'[^A-Za-z0-9_]+', '_', s)
    return s.strip('_')

def _split_scope(name):
    """split a qualified name at top-level '::' (outside <>, ())"""
    parts = []
    depth = 0
    cur = ''
    i = 0
    while i < len(name):
        c = name[i]
        if c in '<(':
            depth += 1
        elif c in '>)':
            depth -= 1
        if depth == 0 and name.startswith('::', i):
            parts.append(cur)
            cur = ''
            i += 2
            continue
        cur += c
        i += 1
    parts.append(cur)
    return parts

def strip_quals(name, keep_tscopes=True):
    """drop plain-identifier scope qualifiers (namespaces, non-template classes), also inside template
    argument lists; template-id scopes are kept when keep_tscopes, else only the last component stays"""
    name = name.strip()
    # pointer / reference / cv decorations of template arguments stay attached
    m = re.match(r'^(const\s+)?(.*?)(\s*[*&]+\s*(const)?)?$', name)
    if m and (m.group(1) or m.group(3)) and '<' not in (m.group(3) or ''):
        core = m.group(2)
        return (m.group(1) or '').replace(' ', '') + strip_quals(core, keep_tscopes) + (m.group(3) or '').replace(' ', '')
    from .ctypes_ import split_top
    comps = _split_scope(name)
    out = []
    for k, comp in enumerate(comps):
        lt = comp.find('<')
        is_last = k == len(comps) - 1
        if lt < 0 or not comp.endswith('>'):
            if is_last:
                out.append(comp.replace(' ', ''))
            continue
        if not is_last and not keep_tscopes:
            continue
        args = split_top(comp[lt + 1:-1])
        out.append(comp[:lt] + '<' + ','.join(strip_quals(a, True) for a in args) + '>')
    return '::'.join(out)

class E:
    """A lowered expression: C text `s`; if it denotes `*p`, ptr = text of p."""
    __slots__ = ('s', 'ptr')
    def __init__(self, s, ptr=None):
        self.s = s
        self.ptr = ptr
    def __str__(self):
        return self.s

def addr(e):
    if e.ptr is not None:
        return e.ptr
    return '(&%s)' % e.s

def deref(p):
    m = re.match(r'^\(&(.*)\)$', p)
    if m and _balanced(m.group(1)):
        return E(m.group(1), p)
    return E('(*%s)' % p, p)

def _balanced(s):
    d = 0
    for c in s:
        if c == '(':
            d += 1
        elif c == ')':
            d -= 1
            if d < 0:
                return False
    return d == 0

class Record:
    def __init__(self, node, printed, cname):
        self.node = node
        self.printed = printed
        self.cname = cname
        self.fields = []       # (cname, FieldDecl node)
        self.bases = []        # (Record, fieldname or None if empty)
        self.methods = []      # function decl nodes
        self.dd = node.get('definitionData', {})
        self.is_union = node.get('tagUsed') == 'union'
        self.is_lambda = False
        self.complete = bool(node.get('completeDefinition'))
        self.laid_out = False
        self.empty = False

class Func:
    def __init__(self, node, cname, rec, kind):
        self.node = node
        self.cname = cname
        self.rec = rec
        self.kind = kind       # 'fn' 'method' 'ctor' 'dtor' 'conv'
        self.is_static = node.get('storageClass') == 'static' or kind == 'fn'
        self.body = None
        self.inits = []
        self.params = []
        for c in node.get('inner', ()):
            k = c.get('kind')
            if k == 'ParmVarDecl':
                self.params.append(c)
            elif k == 'CompoundStmt':
                self.body = c
            elif k == 'CXXCtorInitializer':
                self.inits.append(c)

class Lowering:
    def __init__(self, index, aliases=None, names=None, opts=None):
        self.ix = index
        self.opts = opts or {}
        self.records = {}        # id -> Record
        self.rec_by_name = {}    # printed -> Record
        self.enums = {}          # id -> (cname, node)
        self.enum_by_name = {}
        self.typedefs = {}       # printed name -> type string
        self.typedef_bare = {}
        self.funcs = {}          # id -> Func
        self.globals = {}        # id -> (cname, node)
        self.user_aliases = aliases or {}
        self.user_names = names or {}     # printed qualified fn name -> cname override
        self.tp = TypeParser(self._resolve_name)
        self.needed_funcs = []   # worklist
        self.emitted_funcs = {}
        self.extern_funcs = {}
        self.needed_records = []
        self.record_order = []
        self.used_enums = {}
        self.used_globals = {}
        self.anon_counter = 0
        self.loop_contracts = {}   # (fn cname, ordinal) -> text
        self.loops_seen = {}       # fn cname -> count
        self.fn_meta = {}          # cname -> dict(file, lines, hash)
        self.static_vars = {}
        self._collect()

    # ------------------------------------------------------------------ names
    def _context_name(self, node):
        """printed C++ qualified name of the *context* that contains node"""
        parts = []
        p = self.ix.parent.get(node.get('id'))
        while p is not None:
            k = p.get('kind')
            if k == 'NamespaceDecl':
                parts.append(p.get('name') or '(anonymous namespace)')
            elif k in ('CXXRecordDecl', 'ClassTemplateSpecializationDecl', 'ClassTemplatePartialSpecializationDecl'):
                parts.append(self._record_own_name(p))
            elif k in ('FunctionDecl', 'CXXMethodDecl', 'CXXConstructorDecl', 'CXXDestructorDecl', 'CXXConversionDecl'):
                # local class / lambda inside a function: clang prints the function name as scope for
                # local classes; lambdas print without scope
                parts.append(p.get('name', ''))
            p = self.ix.parent.get(p.get('id')) if p.get('id') else None
        parts.reverse()
        return '::'.join(x for x in parts if x)

    def _record_own_name(self, node):
        name = node.get('name')
        if not name:
            f, l, _ = exploc(node.get('loc'))
            col = (node.get('loc', {}).get('expansionLoc') or node.get('loc', {})).get('col')
            if self._is_lambda_record(node):
                return '(lambda at %s:%s:%s)' % (f, l, col)
            return '(unnamed %s at %s:%s:%s)' % (node.get('tagUsed', 'struct'), f, l, col)
        if node.get('kind') == 'ClassTemplateSpecializationDecl':
            args = [c for c in node.get('inner', ()) if c.get('kind') == 'TemplateArgument']
            return name + '<' + ', '.join(self._print_targs(args)) + '>'
        return name

    def _is_lambda_record(self, node):
        return bool(node.get('definitionData', {}).get('isLambda')) or (
            not node.get('name') and any(c.get('kind') == 'CXXMethodDecl' and c.get('name') == 'operator()'
                                         for c in node.get('inner', ())))

    def _print_targs(self, args):
        out = []
        for a in args:
            if 'type' in a:
                t = a['type']
                out.append(t.get('desugaredQualType') or t['qualType'])
            elif 'value' in a:
                out.append(str(a['value']))
            elif 'decl' in a:
                d = a['decl']
                full = self.ix.by_id.get(d['id'], d)
                q = self._context_name(full)
                out.append('&' + (q + '::' if q else '') + d.get('name', '?'))
            elif a.get('isPack'):
                out.extend(self._print_targs([c for c in a.get('inner', ()) if c.get('kind') == 'TemplateArgument']))
            elif a.get('isNullptr'):
                out.append('nullptr')
            else:
                out.append('?')
        return out

    def printed_name(self, node):
        ctx = self._context_name(node)
        own = self._record_own_name(node) if node.get('kind') in (
            'CXXRecordDecl', 'ClassTemplateSpecializationDecl') else node.get('name', '')
        if own.startswith('(lambda at'):
            return own
        return (ctx + '::' if ctx else '') + own

    # ------------------------------------------------------------------ collection
    def _collect(self):
        ix = self.ix
        # user aliases: TypeAliasDecl named A_xxx -> record decl id
        alias_for_id = {}
        for n in list(ix.by_id.values()):
            if n.get('kind') in ('TypeAliasDecl', 'TypedefDecl') and n.get('name', '').startswith('A_'):
                rid = self._find_record_decl_id(n)
                if rid:
                    alias_for_id[rid] = (n['name'][2:], n['type'].get('desugaredQualType') or n['type']['qualType'])
        pending_typedefs = []
        for i, n in list(ix.by_id.items()):
            k = n.get('kind')
            if k in ('CXXRecordDecl', 'ClassTemplateSpecializationDecl') and n.get('completeDefinition'):
                if (n.get('isImplicit') and not self._is_lambda_record(n)) or self._in_template_pattern(n):
                    continue
                printed = self.printed_name(n)
                if i in alias_for_id:
                    cname, pstr = alias_for_id[i]
                    r = Record(n, printed, cname)
                    self.rec_by_name.setdefault(pstr, r)
                    r.names = [printed, pstr]
                else:
                    r = Record(n, printed, None)
                    r.names = [printed]
                r.is_lambda = self._is_lambda_record(n)
                self.records[i] = r
                if printed in self.rec_by_name and self.rec_by_name[printed] is not r and not r.is_lambda:
                    # two distinct complete records printing identically: keep first, remember clash
                    r.clash = True
                self.rec_by_name.setdefault(printed, r)
            elif k == 'EnumDecl' and any(c.get('kind') == 'EnumConstantDecl' for c in n.get('inner', ())):
                printed = self.printed_name(n)
                self.enums[i] = (sanitize(printed), n)
                self.enum_by_name.setdefault(printed, i)
            elif k in ('TypeAliasDecl', 'TypedefDecl'):
                if self._in_template_pattern(n):
                    continue
                printed = self.printed_name(n)
                t = n['type']
                under = t.get('desugaredQualType') or t['qualType']
                self.typedefs.setdefault(printed, under)
                self.typedef_bare.setdefault(n.get('name'), set()).add(under)
                pending_typedefs.append((n, under))
        # typedefs nested in a record are reachable under every printed name of that record
        for n, under in pending_typedefs:
            p = self.ix.parent.get(n['id'])
            if p is not None and p.get('id') in self.records:
                for nm in self._all_names(self.records[p['id']]):
                    self.typedefs.setdefault(nm + '::' + n['name'], under)
        for i, r in list(self.records.items()):
            for nm in self._all_names(r):
                self.rec_by_name.setdefault(nm, r)
        # assign cnames of records: nested ones derive from their parent's cname
        for i, r in self.records.items():
            if r.cname is None:
                r.cname = self._auto_record_cname(r)
        # lambda captures: closure field k <-> captured declaration (from the LambdaExpr's capture initialisers)
        for n in list(ix.by_id.values()):
            pass
        self._scan_lambdas()
        # gather members
        for i, r in self.records.items():
            for c in r.node.get('inner', ()):
                k = c.get('kind')
                if k == 'FieldDecl':
                    r.fields.append([c.get('name') or '__anon%d' % len(r.fields), c])
                elif k in ('CXXMethodDecl', 'CXXConstructorDecl', 'CXXDestructorDecl', 'CXXConversionDecl'):
                    r.methods.append(c)
                elif k == 'FunctionTemplateDecl':
                    for s in c.get('inner', ()):
                        if s.get('kind') in ('CXXMethodDecl', 'CXXConstructorDecl', 'CXXConversionDecl') and \
                           not self._is_templated_pattern(c, s):
                            r.methods.append(s)
                elif k == 'FriendDecl':
                    pass

    def _in_template_pattern(self, n):
        """true for the dependent pattern of a class template and everything nested in it"""
        k0 = n.get('kind')
        p = self.ix.parent.get(n.get('id'))
        first = True
        while p is not None:
            k = p.get('kind')
            if k == 'ClassTemplateDecl' and first and k0 == 'CXXRecordDecl':
                return True
            if k == 'ClassTemplatePartialSpecializationDecl':
                return True
            if k == 'CXXRecordDecl':
                pp = self.ix.parent.get(p.get('id'))
                if pp is not None and pp.get('kind') == 'ClassTemplateDecl':
                    return True
            if k == 'FunctionTemplateDecl':
                fns = [c for c in p.get('inner', ()) if c.get('kind') in
                       ('FunctionDecl', 'CXXMethodDecl', 'CXXConstructorDecl', 'CXXConversionDecl')]
                # inside the pattern function of a function template?
                q = n
                chain = set()
                x = n
                while x is not None and x is not p:
                    chain.add(x.get('id'))
                    x = self.ix.parent.get(x.get('id'))
                if fns and fns[0].get('id') in chain:
                    return True
            first = False
            p = self.ix.parent.get(p.get('id')) if p.get('id') else None
        return False

    def _scan_lambdas(self):
        def unwrap(x):
            while x.get('kind') in ('ImplicitCastExpr', 'ParenExpr', 'ExprWithCleanups', 'CXXConstructExpr',
                                    'MaterializeTemporaryExpr', 'CXXBindTemporaryExpr') and x.get('inner'):
                cs = [c for c in x['inner'] if c]
                if len(cs) != 1:
                    break
                x = cs[0]
            return x
        def walk(x):
            for c in x.get('inner', ()):
                if not isinstance(c, dict) or not c:
                    continue
                if c.get('kind') == 'LambdaExpr':
                    cs = c.get('inner', [])
                    if cs and cs[0].get('id') in self.records:
                        r = self.records[cs[0]['id']]
                        inits = [i for i in cs[1:] if i and i.get('kind') != 'CompoundStmt']
                        r.capture_inits = inits
                        r.captures = {}
                        for k, ini in enumerate(inits):
                            u = unwrap(ini)
                            if u.get('kind') == 'DeclRefExpr':
                                r.captures[u['referencedDecl']['id']] = k
                            elif u.get('kind') == 'CXXThisExpr':
                                r.captures['this'] = k
                            elif u.get('kind') == 'UnaryOperator' and u.get('opcode') == '*':
                                uu = unwrap(u['inner'][0])
                                if uu.get('kind') == 'CXXThisExpr':
                                    r.captures['*this'] = k
                walk(c)
        for d in self.ix.docs:
            walk(d)

    def _all_names(self, r):
        """every printed spelling under which record r may appear (alias spellings of enclosing records included)"""
        out = list(r.names)
        p = self.ix.parent.get(r.node['id'])
        while p is not None and p.get('kind') == 'ClassTemplateDecl':
            p = self.ix.parent.get(p.get('id'))
        if p is not None and p.get('id') in self.records and not r.is_lambda:
            own = self._record_own_name(r.node)
            for pn in self._all_names(self.records[p['id']]):
                nm = pn + '::' + own
                if nm not in out:
                    out.append(nm)
        return out

    def _is_templated_pattern(self, tmpl, fn):
        # the first function child of a FunctionTemplateDecl is the pattern (has dependent types);
        # specializations follow it
        fns = [c for c in tmpl.get('inner', ()) if c.get('kind') in
               ('FunctionDecl', 'CXXMethodDecl', 'CXXConstructorDecl', 'CXXConversionDecl')]
        return fns and fns[0] is fn

    def _find_record_decl_id(self, n):
        for c in n.get('inner', ()):
            if not isinstance(c, dict) or c.get('kind') == 'TemplateArgument':
                continue
            d = c.get('decl')
            if c.get('kind') == 'RecordType' and d:
                return d['id']
            r = self._find_record_decl_id(c)
            if r:
                return r
        return None

    def _auto_record_cname(self, r):
        p = self.ix.parent.get(r.node['id'])
        while p is not None and p.get('kind') in ('ClassTemplateDecl',):
            p = self.ix.parent.get(p.get('id'))
        if p is not None and p.get('id') in self.records and not r.is_lambda:
            pr = self.records[p['id']]
            if pr.cname is None:
                pr.cname = self._auto_record_cname(pr)
            return pr.cname + '_' + sanitize(self._record_own_name(r.node))
        base = sanitize(r.printed)
        if r.is_lambda:
            # the same source lambda instantiated several times prints identically: number the closures
            taken = self.__dict__.setdefault('_lambda_names', {})
            k = taken.get(base, 0) + 1
            taken[base] = k
            if k > 1:
                self.__dict__.setdefault('_ambiguous_lambda_names', set()).add(r.printed)
                return '%s__%d' % (base, k)
        return base

    # ------------------------------------------------------------------ type resolution
    def _resolve_name(self, name):
        if name.startswith('::'):
            name = name[2:]
        te = getattr(self, 'type_exprs', None)
        if te and ('sizeof(' in name or 'alignof(' in name):
            for e, v in te.items():
                if e in name:
                    name = name.replace(e, v)
        name = re.sub(r'(?<![A-Za-z0-9_])(\d+)(?:[uU][lL]{0,2}|[lL]{1,2}[uU]?)(?![A-Za-z0-9_])', r'\1', name)
        if '<' in name and name not in self.rec_by_name and name not in self.typedefs:
            # bool template arguments: the JSON AST records them as 1-bit integers (true == -1)
            alt = re.sub(r'(?<=[<, ])true(?=[,>])', '-1', re.sub(r'(?<=[<, ])false(?=[,>])', '0', name))
            if alt != name and (alt in self.rec_by_name or alt in self.typedefs):
                name = alt
        # template arguments printed as unevaluated constant expressions ("1 - 1")
        for _ in range(4):
            m = re.search(r'(?<![A-Za-z0-9_])(\d+) ([-+]) (\d+)(?![A-Za-z0-9_])', name)
            if not m:
                break
            v = int(m.group(1)) + int(m.group(3)) if m.group(2) == '+' else int(m.group(1)) - int(m.group(3))
            name = name[:m.start()] + str(v) + name[m.end():]
        if name in STD_MAP:
            return ('base', STD_MAP[name], {'kind': 'builtin'})
        r = self.rec_by_name.get(name)
        if r is not None and r.is_lambda and name in getattr(self, '_ambiguous_lambda_names', ()):
            raise ExtractError('closure type %s is ambiguous (several instantiations); it can only be resolved from its LambdaExpr' % name)
        if r is not None:
            self.need_record(r)
            return ('base', ('union ' if r.is_union else 'struct ') + r.cname, {'kind': 'record', 'rec': r})
        if name in self.enum_by_name:
            i = self.enum_by_name[name]
            self.used_enums[i] = True
            return ('base', self.enums[i][0], {'kind': 'enum', 'enum': i})
        if name in self.typedefs:
            return self.tp._sub(self.typedefs[name])
        m = re.match(r'^(?:std::)?(?:atomic|__atomic_base)<(.*)>$', name)
        if m:
            t = self.tp._sub(m.group(1))
            if t[0] == 'base':
                info = dict(t[2]); info['atomic'] = True
                return ('base', t[1], info)
            return ('atomicwrap', t) if False else self._mark_atomic(t)
        if re.match(r'^std::(index_sequence|integer_sequence|make_index_sequence|integral_constant|true_type|false_type|in_place_t)\b', name):
            return ('base', 'struct frgv_std_empty', {'kind': 'builtin', 'empty_std': True})
        if name.startswith('std::') and name[5:] in STD_MAP:
            return ('base', STD_MAP[name[5:]], {'kind': 'builtin'})
        # typedef printed without template arguments on the class (clang does this inside templates)
        cands = set()
        stripped = re.sub(r'<[^<>]*>', '', name)
        for k, v in self.typedefs.items():
            if re.sub(r'<[^<>]*(<[^<>]*>[^<>]*)*>', '', k) == stripped:
                cands.add(v)
        if len(cands) == 1:
            return self.tp._sub(cands.pop())
        if '::' not in name and name in self.typedef_bare and len(self.typedef_bare[name]) == 1:
            return self.tp._sub(next(iter(self.typedef_bare[name])))
        # names printed as written (without namespace qualification): match with all qualifiers stripped
        if not getattr(self, '_in_fallback', False):
            if not hasattr(self, '_stripped'):
                self._stripped = {}
                self._stripped_last = {}
                for k in list(self.rec_by_name) + list(self.enum_by_name) + list(self.typedefs):
                    self._stripped.setdefault(strip_quals(k), set()).add(k)
                    self._stripped_last.setdefault(strip_quals(k, False), set()).add(k)
            c = self._stripped.get(strip_quals(name), ())
            if not c:
                c = self._stripped_last.get(strip_quals(name, False), ())
            # distinct printed names may denote one record (alias key + own key)
            ids = {}
            for k in c:
                r = self.rec_by_name.get(k)
                ids[id(r) if r is not None else k] = k
            if len(ids) > 1:
                ids = self._prefer_context(ids)
            if len(ids) == 1:
                self._in_fallback = True
                try:
                    return self._resolve_name(next(iter(ids.values())))
                finally:
                    self._in_fallback = False
            # template-id printed with its defaulted trailing arguments suppressed
            sn = strip_quals(name)
            if sn.endswith('>'):
                pre = sn[:-1] + ','
                ids = {}
                for sk, keys in self._stripped.items():
                    if sk.startswith(pre):
                        for k in keys:
                            r = self.rec_by_name.get(k)
                            ids[id(r) if r is not None else k] = k
                if len(ids) == 1:
                    self._in_fallback = True
                    try:
                        return self._resolve_name(next(iter(ids.values())))
                    finally:
                        self._in_fallback = False
        return None

    def _prefer_context(self, ids):
        """among several candidates prefer the one nested in the class whose member is being lowered"""
        cur = getattr(self, 'current_rec', None)
        while cur is not None:
            pref = {}
            for key, k in ids.items():
                for nm in self._all_names(cur):
                    if k.startswith(nm + '::'):
                        pref[key] = k
            if len(pref) == 1:
                return pref
            p = self.ix.parent.get(cur.node['id'])
            while p is not None and p.get('kind') == 'ClassTemplateDecl':
                p = self.ix.parent.get(p.get('id'))
            cur = self.records.get(p.get('id')) if p is not None else None
        return ids

    def _mark_atomic(self, t):
        return t   # pointers etc: atomic-ness is handled at the member-call site

    def ty(self, tnode_or_str):
        lt = getattr(self, 'local_typedefs', None)
        if lt:
            if isinstance(tnode_or_str, dict):
                tnode_or_str = {k: self._subst_local(v, lt) if isinstance(v, str) else v for k, v in tnode_or_str.items()}
            else:
                tnode_or_str = self._subst_local(tnode_or_str, lt)
        if isinstance(tnode_or_str, dict):
            s = tnode_or_str.get('desugaredQualType') or tnode_or_str['qualType']
            if re.match(r'^(std::)?(va_list|__builtin_va_list|__gnuc_va_list)\b', tnode_or_str['qualType']):
                s = tnode_or_str['qualType']      # keep va_list abstract (CBMC and gcc each have their own)
            try:
                return self.tp.parse(s)
            except ExtractError:
                if 'desugaredQualType' in tnode_or_str:
                    return self.tp.parse(tnode_or_str['qualType'])
                raise
        return self.tp.parse(tnode_or_str)

    def _subst_local(self, s, lt):
        for _ in range(4):
            prev = s
            for name, under in lt.items():
                s = re.sub(r'(?<![A-Za-z0-9_:])%s(?![A-Za-z0-9_:<])' % re.escape(name), lambda m: under, s)
            if s == prev:
                break
        return s

    def fn_type(self, node):
        """function type of a declaration; a deduced return type printed as an unevaluated expression is
        recovered from the type of a return statement's operand"""
        key = node['id']
        c = self.__dict__.setdefault('_fn_types', {})
        if key in c:
            return c[key]
        try:
            t = self.ty(node['type'])
        except ExtractError:
            rt = self._deduce_return_type(node)
            if rt is None:
                raise
            ps = [self.ty(p['type']) for p in node.get('inner', ()) if p.get('kind') == 'ParmVarDecl']
            t = ('fn', rt, ps, False)
        c[key] = t
        return t

    def _deduce_return_type(self, n):
        def walk(x):
            for ch in x.get('inner', ()):
                if not isinstance(ch, dict):
                    continue
                if ch.get('kind') == 'ReturnStmt':
                    es = [e for e in ch.get('inner', ()) if e]
                    if es and 'type' in es[0]:
                        try:
                            return self.ty(es[0]['type'])
                        except ExtractError:
                            pass
                if ch.get('kind') != 'LambdaExpr':
                    r = walk(ch)
                    if r is not None:
                        return r
            return None
        return walk(n)

    def rec_of_type(self, t):
        t = strip_ref(t)
        if t[0] == 'base' and t[2].get('kind') == 'record':
            return t[2]['rec']
        return None

    # ------------------------------------------------------------------ record facts
    def need_record(self, r):
        if not r.laid_out:
            r.laid_out = True
            # bases
            for b in r.node.get('bases', ()):
                bt = self.ty(b['type'])
                br = self.rec_of_type(bt)
                if br is None:
                    raise ExtractError('base %r of %s is not a known record' % (b['type'], r.printed))
                if b.get('isVirtual'):
                    raise ExtractError('virtual base in %s' % r.printed)
                self.need_record(br)
                r.bases.append([br, None])
            n = 0
            for b in r.bases:
                if not b[0].empty:
                    b[1] = '__b%d' % n
                    n += 1
            for f in r.fields:
                f.append(self.ty(f[1]['type']))
            r.empty = (not r.fields) and all(b[0].empty for b in r.bases)
            for m in r.methods:
                if m.get('virtual'):
                    raise ExtractError('virtual function in %s' % r.printed)
            self.record_order.append(r)

    def nontrivial_dtor(self, r):
        d = r.dd.get('dtor', {})
        return bool(d.get('nonTrivial'))

    def regpass(self, r):
        """may be passed/returned by value bitwise (Itanium 'can pass in registers')"""
        if 'canPassInRegisters' in r.dd:
            return True
        dd = r.dd
        if self.nontrivial_dtor(r):
            return False
        if dd.get('copyCtor', {}).get('nonTrivial') or dd.get('moveCtor', {}).get('nonTrivial'):
            return False
        if dd.get('isTriviallyCopyable') or dd.get('isLambda') or r.is_lambda:
            # lambdas: decide from captures
            for _, fn, ft in r.fields:
                fr = self.rec_of_type(ft) if not is_ref(ft) else None
                if fr is not None and not self.regpass(fr):
                    return False
            return True
        return bool(dd.get('copyCtor', {}).get('trivial') or dd.get('moveCtor', {}).get('trivial'))

    # ------------------------------------------------------------------ functions
    def func_of(self, decl_id):
        f = self.funcs.get(decl_id)
        if f is not None:
            return f
        n = self.ix.by_id.get(decl_id)
        if n is None:
            return None
        k = n.get('kind')
        if k not in ('FunctionDecl', 'CXXMethodDecl', 'CXXConstructorDecl', 'CXXDestructorDecl', 'CXXConversionDecl'):
            return None
        # prefer the definition if this is only a declaration
        if not any(c.get('kind') == 'CompoundStmt' for c in n.get('inner', ())):
            d = self._find_definition(n)
            if d is not None and d is not n:
                f = self.func_of(d['id'])
                self.funcs[decl_id] = f
                return f
        rec = None
        p = self.ix.parent.get(decl_id)
        while p is not None and p.get('kind') in ('FunctionTemplateDecl', 'FriendDecl', 'LinkageSpecDecl'):
            p = self.ix.parent.get(p.get('id'))
        if k != 'FunctionDecl':
            if 'parentDeclContextId' in n and n['parentDeclContextId'] in self.records:
                rec = self.records[n['parentDeclContextId']]
            elif p is not None and p.get('id') in self.records:
                rec = self.records[p['id']]
            if rec is None:
                raise ExtractError('method %s has no known record' % n.get('name'))
            self.need_record(rec)
        kind = {'FunctionDecl': 'fn', 'CXXMethodDecl': 'method', 'CXXConstructorDecl': 'ctor',
                'CXXDestructorDecl': 'dtor', 'CXXConversionDecl': 'conv'}[k]
        f = Func(n, None, rec, kind)
        if kind == 'method' and n.get('storageClass') == 'static':
            f.is_static = True
        elif kind != 'fn':
            f.is_static = False
        f.cname = self._func_cname(f)
        self.funcs[decl_id] = f
        return f

    def _find_definition(self, n):
        """out-of-line definition of a declared function: a decl with previousDecl == n"""
        if not hasattr(self, '_prev_map'):
            self._prev_map = {}
            for m in self.ix.by_id.values():
                if 'previousDecl' in m:
                    self._prev_map.setdefault(m['previousDecl'], []).append(m)
        seen = set()
        work = [n['id']]
        while work:
            i = work.pop()
            if i in seen:
                continue
            seen.add(i)
            for m in self._prev_map.get(i, ()):
                if any(c.get('kind') == 'CompoundStmt' for c in m.get('inner', ())):
                    return m
                work.append(m['id'])
        return None

    def _sig_kind(self, f):
        """'copy' / 'move' / 'default' for constructors and assignment operators"""
        ps = f.params
        if f.kind == 'ctor' and not ps:
            return 'default'
        if len(ps) == 1 and f.rec is not None:
            try:
                t = self.ty(ps[0]['type'])
            except ExtractError:
                return None
            if is_ref(t) and self.rec_of_type(t) is f.rec:
                return 'move' if t[0] == 'rref' else 'copy'
        return None

    def _func_cname(self, f):
        n = f.node
        name = n.get('name', '')
        if f.rec is not None:
            if f.kind == 'ctor':
                base = 'ctor'
            elif f.kind == 'dtor':
                return f.rec.cname + '_dtor'
            elif f.kind == 'conv':
                base = 'conv_' + sanitize(name[len('operator '):].replace('bool', 'bool'))
            elif name.startswith('operator'):
                op = name[len('operator'):].strip()
                base = OPNAMES.get(op)
                if base is None:
                    base = 'op_' + sanitize(op)
            else:
                base = name
            sk = self._sig_kind(f) if (f.kind == 'ctor' or name == 'operator=') else None
            if sk:
                return '%s_%s_%s' % (f.rec.cname, base, sk)
            targs = [c for c in n.get('inner', ()) if c.get('kind') == 'TemplateArgument']
            if targs:
                ta = sanitize('_'.join(self._print_targs(targs)))
                if ta and len(ta) <= 60:
                    cand = '%s_%s__%s' % (f.rec.cname, base, ta)
                    taken = self.__dict__.setdefault('_method_names', {})
                    cid = self._canon_decl_id(n)
                    if taken.setdefault(cand, cid) == cid:
                        return cand
            # ordinal among same-named declarations of the record, in declaration order
            same = [m for m in f.rec.methods if m.get('name') == name and
                    not (self._sig_kind(Func(m, None, f.rec, f.kind)) if (f.kind == 'ctor' or name == 'operator=') else None)]
            ids = []
            for m in same:
                key = self._canon_decl_id(m)
                if key not in ids:
                    ids.append(key)
            me = self._canon_decl_id(n)
            if len(ids) <= 1:
                return '%s_%s' % (f.rec.cname, base)
            if me not in ids:
                ids.append(me)
            return '%s_%s_%d' % (f.rec.cname, base, ids.index(me))
        # free function
        if name in ('frg_panic', 'frg_log'):
            return name
        q = self.printed_fn_name(n)
        if q in self.user_names:
            return self.user_names[q]
        p = self.ix.parent.get(n['id'])
        if p is not None and p.get('kind') == 'LinkageSpecDecl' or n.get('mangledName', '_Z').startswith('_Z') is False:
            return name
        if name.startswith('operator') and not (name[8:9].isalnum() or name[8:9] == '_'):
            op = name[len('operator'):].strip()
            ctx = self._context_name(n)
            q = (ctx + '::' if ctx else '') + OPNAMES.get(op, 'op_' + sanitize(op))
        base = sanitize(q)
        targs = [c for c in n.get('inner', ()) if c.get('kind') == 'TemplateArgument']
        if targs:
            ta = sanitize('_'.join(self._print_targs(targs)))
            if ta and len(ta) <= 60:
                base = base + '__' + ta
        # overloads / template specializations: add ordinal when the plain name is taken
        key = ('fn', base)
        lst = self.__dict__.setdefault('_fn_names', {}).setdefault(key, [])
        cid = self._canon_decl_id(n)
        if cid not in lst:
            lst.append(cid)
        k = lst.index(cid)
        return base if k == 0 else '%s__%d' % (base, k)

    def _canon_decl_id(self, n):
        d = n
        while 'previousDecl' in d and d['previousDecl'] in self.ix.by_id:
            d = self.ix.by_id[d['previousDecl']]
        return d['id']

    def printed_fn_name(self, n):
        ctx = self._context_name(n)
        return (ctx + '::' if ctx else '') + n.get('name', '')

    def need_func(self, f):
        if f.cname in self.emitted_funcs or f.cname in self.extern_funcs:
            return
        if f.body is not None or self._synthesizable(f):
            self.emitted_funcs[f.cname] = f
            self.needed_funcs.append(f)
        else:
            self.extern_funcs[f.cname] = f

    def _synthesizable(self, f):
        n = f.node
        if f.kind == 'dtor' and (n.get('isImplicit') or n.get('explicitlyDefaulted') == 'default'
                                 or 'explicitlyDefaulted' in n):
            return True
        if n.get('name') == '__invoke' and f.rec is not None and f.rec.is_lambda:
            return True      # static invoker of a captureless lambda (target of its function-pointer conversion)
        return False
