/* Allocator stub (frgv::valloc). */
#ifndef FRGV_VALLOC_STUBS
#define FRGV_VALLOC_STUBS
#ifndef FRGV_MAX_ALLOC
#define FRGV_MAX_ALLOC 4096
#endif
_Bool nondet_bool(void);
/* ASSUMED: allocator = CBMC's allocation model. Blocks are fresh, zero-filled, exactly n bytes;
 * deallocate/free really free, so double free, use after free and leaks are CBMC obligations. */
unsigned long frgv_alloc_calls, frgv_free_calls;
#ifdef FRGV_ALLOC_MAY_FAIL
#  define FRGV_ALLOC_FAILS() nondet_bool()
#else
#  define FRGV_ALLOC_FAILS() 0
#endif
void *frgv_valloc_allocate(struct frgv_valloc *this, unsigned long n)
{
	frgv_alloc_calls++;
	if (FRGV_ALLOC_FAILS()) return (void *)0;
	__CPROVER_assume(n <= FRGV_MAX_ALLOC);
	void *p = calloc(n, 1);                  /* CBMC model: fresh, zero-initialised, exactly n bytes */
	__CPROVER_assume(p != (void *)0);
	return p;
}
void frgv_valloc_free(struct frgv_valloc *this, void *p)
{
	if (p) {
		frgv_free_calls++;
		free(p);                                 /* CBMC model: checks dynamic object, offset 0, double free */
	}
}
void frgv_valloc_deallocate(struct frgv_valloc *this, void *p, unsigned long n)
{
	if (p) {
		frgv_free_calls++;
		__CPROVER_assert(__CPROVER_POINTER_OFFSET(p) != 0 || __CPROVER_OBJECT_SIZE(p) == n,
			"allocator: deallocate with a size different from the allocation size");
		free(p);
	}
}
#endif
