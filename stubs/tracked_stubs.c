/* Stub bodies for the parameter types of stubs/frgv_types.hpp (included by the unit harnesses).
 *
 * frgv::tracked carries its lifetime in-band: live == 1 and self == this exactly while the object
 * is within its lifetime. Raw storage is zero (live == 0): the allocator stub returns zero-filled
 * blocks, frigg's aligned_storage zero-fills itself, and frg2c zero-fills record-typed locals
 * (FRGV_ZERO_RECORD_LOCALS). Every lifetime rule of C16 is an assertion here, so it becomes an
 * obligation at every place the lowered frigg code touches an element.
 */
#ifndef FRGV_MAX_ALLOC
#define FRGV_MAX_ALLOC 4096
#endif
int nondet_int(void);
_Bool nondet_bool(void);

/* ASSUMED: element type = plain value + lifetime bookkeeping; constructors do not fail */
#define TRK_IN_LIFETIME(p, what) __CPROVER_assert((p)->live && (p)->self == (p), what)
#define TRK_RAW(p, what) __CPROVER_assert(!(p)->live, what)

void frgv_tracked_ctor_default(struct frgv_tracked *this)
{
	TRK_RAW(this, "lifetime: object constructed over a live object");
	this->v = 0; this->live = 1; this->self = this;
}
void frgv_tracked_ctor(struct frgv_tracked *this, int v)
{
	TRK_RAW(this, "lifetime: object constructed over a live object");
	this->v = v; this->live = 1; this->self = this;
}
void frgv_tracked_ctor_copy(struct frgv_tracked *this, struct frgv_tracked *o)
{
	TRK_IN_LIFETIME(o, "lifetime: copy-constructed from an object outside its lifetime");
	TRK_RAW(this, "lifetime: object constructed over a live object");
	this->v = o->v; this->live = 1; this->self = this;
}
void frgv_tracked_ctor_move(struct frgv_tracked *this, struct frgv_tracked *o)
{
	TRK_IN_LIFETIME(o, "lifetime: move-constructed from an object outside its lifetime");
	TRK_RAW(this, "lifetime: object constructed over a live object");
	this->v = o->v; this->live = 1; this->self = this;
#ifndef FRGV_MOVE_KEEPS_VALUE
	o->v = nondet_int();         /* moved-from: valid but unspecified */
#endif
}
void frgv_tracked_dtor(struct frgv_tracked *this)
{
	TRK_IN_LIFETIME(this, "lifetime: destructor on an object outside its lifetime (never constructed, relocated bytewise, or destroyed twice)");
	this->live = 0;
}
struct frgv_tracked *frgv_tracked_assign_copy(struct frgv_tracked *this, struct frgv_tracked *o)
{
	TRK_IN_LIFETIME(this, "lifetime: assignment to an object outside its lifetime");
	TRK_IN_LIFETIME(o, "lifetime: assignment from an object outside its lifetime");
	this->v = o->v;
	return this;
}
struct frgv_tracked *frgv_tracked_assign_move(struct frgv_tracked *this, struct frgv_tracked *o)
{
	TRK_IN_LIFETIME(this, "lifetime: assignment to an object outside its lifetime");
	TRK_IN_LIFETIME(o, "lifetime: assignment from an object outside its lifetime");
	int v = o->v;
#ifndef FRGV_MOVE_KEEPS_VALUE
	if (o != this) o->v = nondet_int();
#endif
	this->v = v;
	return this;
}
_Bool frgv_tracked_op_eq(struct frgv_tracked *this, struct frgv_tracked *o)
{
	TRK_IN_LIFETIME(this, "lifetime: read of an object outside its lifetime");
	TRK_IN_LIFETIME(o, "lifetime: read of an object outside its lifetime");
	return this->v == o->v;
}
_Bool frgv_tracked_op_ne(struct frgv_tracked *this, struct frgv_tracked *o)
{
	TRK_IN_LIFETIME(this, "lifetime: read of an object outside its lifetime");
	TRK_IN_LIFETIME(o, "lifetime: read of an object outside its lifetime");
	return this->v != o->v;
}

/* ASSUMED: allocator = CBMC's allocation model. Blocks are fresh, zero-filled, exactly n bytes;
 * deallocate/free really free, so double free, use after free and leaks are CBMC obligations. */
unsigned long frgv_alloc_calls, frgv_free_calls;
#ifdef FRGV_ALLOC_MAY_FAIL
#  define FRGV_ALLOC_FAILS() nondet_bool()
#else
#  define FRGV_ALLOC_FAILS() 0
#endif
void *frgv_valloc_allocate(struct frgv_valloc *this, unsigned long n)
{
	frgv_alloc_calls++;
	if (FRGV_ALLOC_FAILS()) return (void *)0;
	__CPROVER_assume(n <= FRGV_MAX_ALLOC);
	void *p = calloc(n, 1);                  /* CBMC model: fresh, zero-initialised, exactly n bytes */
	__CPROVER_assume(p != (void *)0);
	return p;
}
void frgv_valloc_free(struct frgv_valloc *this, void *p)
{
	if (p) {
		frgv_free_calls++;
		free(p);                                 /* CBMC model: checks dynamic object, offset 0, double free */
	}
}
void frgv_valloc_deallocate(struct frgv_valloc *this, void *p, unsigned long n)
{
	if (p) {
		frgv_free_calls++;
		__CPROVER_assert(__CPROVER_POINTER_OFFSET(p) != 0 || __CPROVER_OBJECT_SIZE(p) == n,
			"allocator: deallocate with a size different from the allocation size");
		free(p);
	}
}
