/* Stub bodies for the parameter types of stubs/frgv_types.hpp (included by the unit harnesses).
 *
 * frgv::tracked carries its lifetime in-band: live == 1 and self == this exactly while the object
 * is within its lifetime. Raw storage is zero (live == 0): the allocator stub returns zero-filled
 * blocks, frigg's aligned_storage zero-fills itself, and frg2c zero-fills record-typed locals
 * (FRGV_ZERO_RECORD_LOCALS). Every lifetime rule of C16 is an assertion here, so it becomes an
 * obligation at every place the lowered frigg code touches an element.
 */
int nondet_int(void);
_Bool nondet_bool(void);

/* ASSUMED: element type = plain value + lifetime bookkeeping; constructors do not fail */
#define TRK_IN_LIFETIME(p, what) __CPROVER_assert((p)->live && (p)->self == (p), what)
#define TRK_RAW(p, what) __CPROVER_assert(!(p)->live, what)
/* units whose harnesses own whole containers (FRGV_LIVE_COUNT) also keep a ghost count of live objects: storage released with live
 * objects in it (a skipped destructor) shows as a non-zero count when the owner is gone. Contract units do not (frame clauses). */
#ifdef FRGV_LIVE_COUNT
long frgv_live_objects;
#  define TRK_BORN() (frgv_live_objects++)
#  define TRK_DIED() (frgv_live_objects--)
#  define FRGV_NONE_LIVE() __CPROVER_assert(frgv_live_objects == 0, "lifetime: every constructed element has been destroyed once its owner is gone (no skipped destructor)")
#else
#  define TRK_BORN() ((void)0)
#  define TRK_DIED() ((void)0)
#  define FRGV_NONE_LIVE() ((void)0)
#endif

void frgv_tracked_ctor_default(struct frgv_tracked *this)
{
	TRK_RAW(this, "lifetime: object constructed over a live object");
	this->v = 0; this->live = 1; this->self = this; TRK_BORN();
}
void frgv_tracked_ctor(struct frgv_tracked *this, int v)
{
	TRK_RAW(this, "lifetime: object constructed over a live object");
	this->v = v; this->live = 1; this->self = this; TRK_BORN();
}
void frgv_tracked_ctor_copy(struct frgv_tracked *this, struct frgv_tracked *o)
{
	TRK_IN_LIFETIME(o, "lifetime: copy-constructed from an object outside its lifetime");
	TRK_RAW(this, "lifetime: object constructed over a live object");
	this->v = o->v; this->live = 1; this->self = this; TRK_BORN();
}
void frgv_tracked_ctor_move(struct frgv_tracked *this, struct frgv_tracked *o)
{
	TRK_IN_LIFETIME(o, "lifetime: move-constructed from an object outside its lifetime");
	TRK_RAW(this, "lifetime: object constructed over a live object");
	this->v = o->v; this->live = 1; this->self = this; TRK_BORN();
#ifndef FRGV_MOVE_KEEPS_VALUE
	o->v = nondet_int();         /* moved-from: valid but unspecified */
#endif
}
void frgv_tracked_dtor(struct frgv_tracked *this)
{
	TRK_IN_LIFETIME(this, "lifetime: destructor on an object outside its lifetime (never constructed, relocated bytewise, or destroyed twice)");
	this->live = 0; TRK_DIED();
}
struct frgv_tracked *frgv_tracked_assign_copy(struct frgv_tracked *this, struct frgv_tracked *o)
{
	TRK_IN_LIFETIME(this, "lifetime: assignment to an object outside its lifetime");
	TRK_IN_LIFETIME(o, "lifetime: assignment from an object outside its lifetime");
	this->v = o->v;
	return this;
}
struct frgv_tracked *frgv_tracked_assign_move(struct frgv_tracked *this, struct frgv_tracked *o)
{
	TRK_IN_LIFETIME(this, "lifetime: assignment to an object outside its lifetime");
	TRK_IN_LIFETIME(o, "lifetime: assignment from an object outside its lifetime");
	int v = o->v;
#ifndef FRGV_MOVE_KEEPS_VALUE
	if (o != this) o->v = nondet_int();
#endif
	this->v = v;
	return this;
}
_Bool frgv_tracked_op_eq(struct frgv_tracked *this, struct frgv_tracked *o)
{
	TRK_IN_LIFETIME(this, "lifetime: read of an object outside its lifetime");
	TRK_IN_LIFETIME(o, "lifetime: read of an object outside its lifetime");
	return this->v == o->v;
}
_Bool frgv_tracked_op_ne(struct frgv_tracked *this, struct frgv_tracked *o)
{
	TRK_IN_LIFETIME(this, "lifetime: read of an object outside its lifetime");
	TRK_IN_LIFETIME(o, "lifetime: read of an object outside its lifetime");
	return this->v != o->v;
}

#include "valloc_stubs.c"
