/* Prelude for every lowered frigg unit: the macros frg2c emits, plus the (assumed) atomic model.
 * Compiled both by goto-cc (verification) and by gcc (native layout / differential self-tests).
 */
#ifndef FRGV_PRELUDE_H
#define FRGV_PRELUDE_H
#include <stddef.h>
#include <stdint.h>
#include <stdarg.h>
#include <string.h>
#include <stdlib.h>

#ifndef FRGV_NATIVE
/* ---- verification build ------------------------------------------------------------ */
#  ifdef FRGV_TOTALITY
/* C20 totality units: FRG_ASSERT(x) failing means "execution stops through the assertion hook" */
#    define FRGV_ASSERT(c, msg) do { if(!(c)) { frgv_assert_hook_hits++; __CPROVER_assume(0); } } while(0)
#  else
/* functional units: the library's own assertions are proof obligations */
#    define FRGV_ASSERT(c, msg) do { _Bool __frgv_c = (c); __CPROVER_assert(__frgv_c, "FRG_ASSERT " msg); \
                                     __CPROVER_assume(__frgv_c); } while(0)
#  endif
#  define FRGV_TRAP() do { __CPROVER_assert(0, "trap reached"); __CPROVER_assume(0); } while(0)
#  define FRGV_MISSING_RETURN(fn) do { __CPROVER_assert(0, "control reaches end of non-void function " fn); \
                                       __CPROVER_assume(0); } while(0)
#  define FRGV_ASM() do { } while(0)
#  define FRGV_PAUSE() do { } while(0)
extern unsigned frgv_assert_hook_hits;
#else
/* ---- native build (self-tests / replay of lowered code) ---------------------------- */
#  include <stdio.h>
#  include <stdlib.h>
/* loop contracts woven into the lowered text are verification-only */
#  define __CPROVER_assigns(...)
#  define __CPROVER_loop_invariant(...)
#  define __CPROVER_decreases(...)
extern void frgv_native_assert_fail(const char *msg);
#  define FRGV_ASSERT(c, msg) do { if(!(c)) frgv_native_assert_fail(msg); } while(0)
#  define FRGV_TRAP() frgv_native_assert_fail("trap")
#  define FRGV_MISSING_RETURN(fn) frgv_native_assert_fail("missing return in " fn)
#  define FRGV_ASM() do { } while(0)
#  define FRGV_PAUSE() do { } while(0)
#endif

/* Storage of a class-typed local before its constructor runs. With FRGV_ZERO_RECORD_LOCALS it is zero, so
 * that in-band ghost state (frgv::tracked::live) reads "no object here"; otherwise it is left indeterminate. */
#ifdef FRGV_ZERO_RECORD_LOCALS
#  define FRGV_RAW_STORAGE(x) memset(&(x), 0, sizeof(x))
#else
#  define FRGV_RAW_STORAGE(x) ((void)0)
#endif

/* FRGV_ACC(p, f): access to field f through pointer p of a record type a unit declared "guarded"
 * (lower_opts.access_hooks). A unit may define FRGV_ACCESS_HOOK(addr, size) before this header. */
#ifndef FRGV_ACCESS_HOOK
#  define FRGV_ACCESS_HOOK(a, n) ((void)0)
#endif
#define FRGV_ACC(p, f) (*({ __typeof__(&(p)->f) __frgv_a = &(p)->f; FRGV_ACCESS_HOOK((void *)__frgv_a, sizeof(*__frgv_a)); __frgv_a; }))

/* pointer <-> integer conversions (reinterpret_cast). Default: the C casts. A unit may supply its own address map
 * (the slab unit places pool memory in a flat arena so that address arithmetic stays concrete). */
#ifndef FRGV_P2I
#  define FRGV_P2I(p) ((uintptr_t)(p))
#  define FRGV_I2P(i) ((void *)(uintptr_t)(i))
#endif

#define FRGV_FNPTR_NONNULL(f) 1   /* the weak hooks frg_panic / frg_log are taken as present */

struct frgv_std_empty { char __empty; };   /* std::index_sequence<...> and similar tag types */

typedef struct { unsigned gp_offset, fp_offset; void *overflow_arg_area, *reg_save_area; } FRGV_VA_LIST_TAG;

/* memory orders, numbered as in <atomic> */
#define FRGV_MEMORY_ORDER_RELAXED 0
#define FRGV_MEMORY_ORDER_CONSUME 1
#define FRGV_MEMORY_ORDER_ACQUIRE 2
#define FRGV_MEMORY_ORDER_RELEASE 3
#define FRGV_MEMORY_ORDER_ACQ_REL 4
#define FRGV_MEMORY_ORDER_SEQ_CST 5

/* Atomics: sequential semantics (ASSUMPTION: the C++ memory model is not modelled).  A unit may
 * define FRGV_ATOMIC_HOOK_LOAD/STORE/RMW(ptr, order) before including this header to attach
 * role/order obligations and rely-condition havoc to every access. */
#ifndef FRGV_ATOMIC_HOOK_LOAD
#  define FRGV_ATOMIC_HOOK_LOAD(p, o) ((void)0)
#endif
#ifndef FRGV_ATOMIC_HOOK_STORE
#  define FRGV_ATOMIC_HOOK_STORE(p, v, o) ((void)0)
#endif
#ifndef FRGV_ATOMIC_HOOK_STORED          /* after the store took effect (a reader may run now) */
#  define FRGV_ATOMIC_HOOK_STORED(p, o) ((void)0)
#endif
#ifndef FRGV_ATOMIC_HOOK_RMW
#  define FRGV_ATOMIC_HOOK_RMW(p, o) ((void)0)
#endif
#define FRGV_ATOMIC_LOAD(p, o) (FRGV_ATOMIC_HOOK_LOAD((p), (o)), *(p))
#define FRGV_ATOMIC_STORE(p, v, o) ({ __typeof__(*(p)) __frgv_v = (v); FRGV_ATOMIC_HOOK_STORE((p), __frgv_v, (o)); *(p) = __frgv_v; FRGV_ATOMIC_HOOK_STORED((p), (o)); (void)0; })
#define FRGV_ATOMIC_EXCHANGE(p, v, o) ({ FRGV_ATOMIC_HOOK_RMW((p), (o)); __typeof__(*(p)) __frgv_o = *(p); *(p) = (v); __frgv_o; })
#define FRGV_ATOMIC_FETCH_ADD(p, v, o) ({ FRGV_ATOMIC_HOOK_RMW((p), (o)); __typeof__(*(p)) __frgv_o = *(p); *(p) = __frgv_o + (v); __frgv_o; })
#define FRGV_ATOMIC_FETCH_SUB(p, v, o) ({ FRGV_ATOMIC_HOOK_RMW((p), (o)); __typeof__(*(p)) __frgv_o = *(p); *(p) = __frgv_o - (v); __frgv_o; })
#define FRGV_ATOMIC_FETCH_OR(p, v, o) ({ FRGV_ATOMIC_HOOK_RMW((p), (o)); __typeof__(*(p)) __frgv_o = *(p); *(p) = __frgv_o | (v); __frgv_o; })
#define FRGV_ATOMIC_FETCH_AND(p, v, o) ({ FRGV_ATOMIC_HOOK_RMW((p), (o)); __typeof__(*(p)) __frgv_o = *(p); *(p) = __frgv_o & (v); __frgv_o; })
#define FRGV_ATOMIC_COMPARE_EXCHANGE_STRONG(p, e, d, so, fo) ({ FRGV_ATOMIC_HOOK_RMW((p), (so)); _Bool __frgv_ok = (*(p) == *(e)); \
        if(__frgv_ok) *(p) = (d); else *(e) = *(p); __frgv_ok; })
#define FRGV_ATOMIC_COMPARE_EXCHANGE_WEAK(p, e, d, so, fo) FRGV_ATOMIC_COMPARE_EXCHANGE_STRONG(p, e, d, so, fo)
/* __atomic_* builtins */
#define FRGV_atomic_load_n(p, o) FRGV_ATOMIC_LOAD(p, o)
#define FRGV_atomic_store_n(p, v, o) FRGV_ATOMIC_STORE(p, v, o)
#define FRGV_atomic_exchange_n(p, v, o) FRGV_ATOMIC_EXCHANGE(p, v, o)
#define FRGV_atomic_fetch_add(p, v, o) FRGV_ATOMIC_FETCH_ADD(p, v, o)
#define FRGV_atomic_fetch_sub(p, v, o) FRGV_ATOMIC_FETCH_SUB(p, v, o)
#define FRGV_atomic_compare_exchange_n(p, e, d, w, so, fo) FRGV_ATOMIC_COMPARE_EXCHANGE_STRONG(p, e, d, so, fo)

#endif
