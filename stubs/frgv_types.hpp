// Parameter types shared by the instantiation TUs. Their member functions are only *declared*:
// frg2c turns them into external C functions whose (assumed) contracts live in stubs/*.c.
#pragma once
#include <stddef.h>
namespace frgv {

// Element type that carries its own lifetime state in-band (DESIGN.md 4.2).
struct tracked {
	int v;
	bool live;
	tracked *self;
	tracked();
	explicit tracked(int v);
	tracked(const tracked &o);
	tracked(tracked &&o);
	~tracked();
	tracked &operator=(const tracked &o);
	tracked &operator=(tracked &&o);
	bool operator==(const tracked &o) const;
	bool operator!=(const tracked &o) const;
};

// Allocator stub: every block is tracked by CBMC's own allocation model.
struct valloc {
	void *allocate(size_t n);
	void free(void *p);
	void deallocate(void *p, size_t n);
};

} // namespace frgv
