#!/usr/bin/env python3
"""Fill the generated tables of DESIGN.md section 0 from evidence/*.json, claims.py and seeded/RESULTS.tsv."""
import json, os, re, glob
ROOT = os.path.dirname(os.path.abspath(__file__))
from claims import CLAIMS, NOT_APPLICABLE
rows = ['| id | claimed level | class P/Pc: checks, CBMC properties (all discharged) | class B: bounded runs | known-finding runs | quick wall time |',
        '|---|---|---|---|---|---|']
for pid in sorted(CLAIMS):
    f = os.path.join(ROOT, 'evidence', pid + '.json')
    if not os.path.exists(f):
        rows.append('| %s | %s | (no evidence yet) | | | |' % (pid, CLAIMS[pid]['category']))
        continue
    e = json.load(open(f)); c = e['coverage']
    rows.append('| %s | %s | %d checks, %d properties | %d | %d | %.0f s |' % (
        pid, e['level'], len(c.get('checks_proved', [])), c.get('obligations', 0), len(c.get('bounded', [])), len(c.get('known_finding_runs', [])), e['wall_s']))
for pid in sorted(NOT_APPLICABLE):
    rows.append('| %s | not claimed | | | | |' % pid)
status = '\n'.join(rows)
seed = ''
tsv = os.path.join(ROOT, 'seeded', 'RESULTS.tsv')
if os.path.exists(tsv):
    srows = ['| seeded change | what it changes | outcome of the quick check | first failing obligation |', '|---|---|---|---|']
    for ln in open(tsv):
        p = ln.rstrip('\n').split('\t')
        if len(p) < 4 or p[0].startswith('#'):
            continue
        sid, outcome, ob, msg = p[:4]
        desc = ''
        mj = os.path.join(ROOT, 'seeded', sid, 'meta.json')
        try:
            m = json.load(open(mj)); desc = (', '.join(m.get('functions', [])[:2]) or '') 
        except Exception:
            pass
        srows.append('| %s | %s | %s | %s |' % (sid, desc.replace('|', '/'), outcome, (ob + ': ' + msg).replace('|', '/')[:150]))
    seed = '\n'.join(srows)
p = os.path.join(ROOT, 'DESIGN.md')
s = open(p).read()
s = re.sub(r'<!-- STATUS-TABLE-BEGIN -->.*?<!-- STATUS-TABLE-END -->', lambda m: '<!-- STATUS-TABLE-BEGIN -->\n' + status + '\n<!-- STATUS-TABLE-END -->', s, flags=re.S)
s = re.sub(r'<!-- SEED-TABLE-BEGIN -->.*?<!-- SEED-TABLE-END -->', lambda m: '<!-- SEED-TABLE-BEGIN -->\n' + seed + '\n<!-- SEED-TABLE-END -->', s, flags=re.S)
open(p, 'w').write(s)
print('DESIGN.md tables updated')
