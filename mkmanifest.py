#!/usr/bin/env python3
"""Regenerate MANIFEST.json from the claims table below (keeps it valid at all times)."""
import json, os
ROOT = os.path.dirname(os.path.abspath(__file__))
from claims import CLAIMS, NOT_APPLICABLE
checks = []
for pid, c in sorted(CLAIMS.items()):
    checks.append({
        'property_id': pid,
        'quick_cmd': 'python3 vp.py check %s --tier quick' % pid,
        'thorough_cmd': 'python3 vp.py check %s --tier thorough' % pid,
        'evidence_file': 'evidence/%s.json' % pid,
        'replay_cmd_template': 'python3 vp.py replay {path}',
        'engine': 'frg2c+cbmc-dfcc',
        'level_claimed': {'category': c['category'], 'text': c['text'], 'design_ref': c.get('design_ref', 'DESIGN.md section 7')},
        'level_note': c['note'],
        'technique': c.get('technique', 'contract-based deductive verification: CBMC function/loop contracts (goto-instrument --dfcc) on C lowered mechanically from the instantiated clang AST'),
    })
m = {
    'version': 1,
    'setup_cmd': 'python3 vp.py selfcheck',
    'hooks': {'guard': 'FRG_VERIF_UNUSED', 'enable': 'no hooks: the real headers are extracted unmodified from /repo/include on every run',
              'baseline_off_cmd': 'cd /repo && (test -d _build || meson setup _build >/dev/null) && meson test -C _build',
              'source_commits': [], 'add_only': True},
    'engines': [{'name': 'frg2c+cbmc-dfcc', 'path': 'vp.py', 'serves_properties': sorted(CLAIMS),
                 'kind_free_text': 'clang JSON AST -> C lowering (frg2c) + CBMC 6.11 code contracts (DFCC), SAT back end'}],
    'checks': checks,
    'not_applicable': [{'property_id': p, 'reason': r} for p, r in sorted(NOT_APPLICABLE.items())],
    'notes': 'See DESIGN.md. Exit 2 from a check is a tool failure (extraction abort, timeout), never a violation.',
}
json.dump(m, open(os.path.join(ROOT, 'MANIFEST.json'), 'w'), indent=1)
print('MANIFEST.json: %d checks, %d not_applicable' % (len(checks), len(m['not_applicable'])))
