#!/bin/bash
# usage: seedone.sh <seed-id> [prop] : apply one seeded patch to its scratch worktree and run the quick check against it
s=$1; p=${2:-${s%%-*}}; wt=/tmp/seed/${s%%-*}
cd /verif
mkdir -p /tmp/seed
[ -d $wt ] || git -C /repo worktree add -q --detach $wt HEAD   # remove with: git -C /repo worktree remove --force $wt
git -C $wt checkout -q -- . ; git -C $wt apply /verif/seeded/$s/patch.diff || { echo "$s apply-failed"; exit; }
res=$(FRGV_REPO=$wt timeout 3000 python3 vp.py check $p --tier quick 2>&1); rc=$?
echo "$s/$p rc=$rc violations=$(echo "$res" | grep -c '^VIOLATION') :: $(echo "$res" | grep -m1 '^VIOLATION\|^TOOL-FAILURE' | cut -c1-260)"
git -C $wt checkout -q -- .
