#!/usr/bin/env python3
"""Runner for the contract-based verification of managarm/frigg (see DESIGN.md).

  python3 vp.py check <property> [--tier quick|thorough]
  python3 vp.py replay <replay.json>
  python3 vp.py extract <unit>          (debug: print where the lowered C was written)
  python3 vp.py selftest

Exit codes of `check`: 0 = all deciding obligations discharged (KNOWN-FINDING lines may be printed),
1 = a deciding obligation failed (VIOLATION line printed), 2 = tool failure (never a violation).
"""
import sys, os, json, subprocess, time, hashlib, re, shutil, importlib.util, concurrent.futures, argparse, tempfile

ROOT = os.path.dirname(os.path.abspath(__file__))
sys.path.insert(0, ROOT)
from frg2c.astload import ExtractError, run_clang
from frg2c.emit import Extractor, parse_contract_file, run_probe

REPO = os.environ.get('FRGV_REPO', '/repo')
BUILD = os.path.join(ROOT, 'build')
EVID = os.path.join(ROOT, 'evidence') if REPO == '/repo' else os.path.join(ROOT, 'build', 'evidence_scratch')
REPLAYS = os.path.join(ROOT, 'replays') if REPO == '/repo' else os.path.join(ROOT, 'build', 'replays_scratch')
KF_FILE = os.path.join(ROOT, 'KNOWN_FINDINGS.txt')
JOBS = int(os.environ.get('FRGV_JOBS', '16'))
MEM_KB = int(os.environ.get('FRGV_MEM_KB', str(12 * 1024 * 1024)))

CBMC_CHECKS = ['--bounds-check', '--pointer-check', '--pointer-overflow-check', '--signed-overflow-check',
               '--undefined-shift-check', '--div-by-zero-check', '--pointer-primitive-check',
               # ASSUMED (every unit): allocation does not fail. CBMC 6 lets malloc return NULL by default, which turns every
               # allocated pointer into (fail ? NULL : &object) and with it every later pointer comparison into a solver
               # question; frigg's allocator users do not handle null either (the stubs assume non-null).
               '--no-malloc-may-fail']

class ToolFailure(Exception):
    pass

# ------------------------------------------------------------------------------------------ units
def load_unit(name):
    path = os.path.join(ROOT, 'units', name, 'unit.py')
    spec = importlib.util.spec_from_file_location('unit_' + name, path)
    m = importlib.util.module_from_spec(spec)
    spec.loader.exec_module(m)
    u = dict(m.UNIT)
    u['dir'] = os.path.dirname(path)
    u['module'] = m
    u.setdefault('name', name)
    return u

def all_units():
    out = []
    for d in sorted(os.listdir(os.path.join(ROOT, 'units'))):
        if os.path.exists(os.path.join(ROOT, 'units', d, 'unit.py')):
            out.append(d)
    return out

def parse_contract_decls(u):
    """function contracts declared in contracts.c as '<ret> <fn>_contract(<params>) __CPROVER_...;'"""
    path = os.path.join(u['dir'], u.get('contracts', 'contracts.c'))
    if not os.path.exists(path):
        return []
    r = subprocess.run(['gcc', '-E', '-P', '-x', 'c', '-I', os.path.join(ROOT, 'stubs'), '-I', u['dir']] +
                       ['-D' + d for d in u.get('defines', [])] + [path],
                       stdout=subprocess.PIPE, stderr=subprocess.PIPE, text=True)
    txt = r.stdout
    out = []
    for m in re.finditer(r'([A-Za-z_][A-Za-z_0-9 \*]*?)\b([A-Za-z_][A-Za-z_0-9]*?)_contract(__[A-Za-z_0-9]+)?\s*\(([^()]*)\)\s*__CPROVER_', txt):
        ret, fn, case, params = m.group(1).strip(), m.group(2), m.group(3) or '', m.group(4).strip()
        ps = []
        if params and params != 'void':
            for p in params.split(','):
                p = p.strip()
                mm = re.match(r'^(.*?)([A-Za-z_][A-Za-z_0-9]*)$', p)
                ps.append((mm.group(1).strip(), mm.group(2)))
        out.append((ret, fn, ps, case))
    return out

def auto_harness_text(u):
    """one harness per contract: declare (nondeterministic) arguments, call the function; all set-up is the
    contract's precondition"""
    lines = ['/* generated: one harness per function contract in contracts.c */']
    for ret, fn, ps, case in parse_contract_decls(u):
        if fn in u.get('no_auto_harness', ()):
            continue
        body = []
        args = []
        for k, (t, nm) in enumerate(ps):
            if t.replace(' ', '') == '_Bool':
                body.append('_Bool a%d = nondet_size_t() & 1;' % k)
            else:
                body.append('%s a%d;' % (t, k))
            args.append('a%d' % k)
        pre = u.get('auto_harness_pre', '')
        lines.append('void h_%s%s(void) { %s %s __CPROVER_assert(0, "canary0: harness entry reachable"); %s(%s); FRGV_CANARY(); }' % (fn, case, pre, ' '.join(body), fn, ', '.join(args)))
    return '\n'.join(lines) + '\n'

def unit_obligations(u, tier):
    obs = [dict(o) for o in u.get('obligations', [])]
    if u.get('auto_harness'):
        ah = u['auto_harness']
        over = u.get('contract_overrides', {})
        if callable(over):
            over = over(tier)
        for ret, fn, ps, case in parse_contract_decls(u):
            if fn in u.get('no_auto_harness', ()):
                continue
            o = dict(id='%s.%s%s' % (u['name'], fn, case), entry='h_' + fn + case,
                     enforce=['%s/%s_contract%s' % (fn, fn, case)], function=fn, expect_kinds=['postcondition'])
            o.update(ah)
            o.update(over.get(fn + case, over.get(fn, {})))
            obs.append(o)
    gen = getattr(u['module'], 'obligations', None)
    if gen is not None:
        obs += [dict(o) for o in gen(tier)]
    for o in obs:
        o.setdefault('cls', 'P')
        o.setdefault('flags', [])
        o.setdefault('defines', [])
        o.setdefault('tiers', ['quick', 'thorough'])
        o.setdefault('timeout', int(os.environ.get('FRGV_TIMEOUT', '600')))
        o['unit'] = u['name']
    return [o for o in obs if tier in o['tiers']]

def extract_unit(u, bdir, tier='quick'):
    """clang AST -> frg2c -> build/<unit>/unit.c ; returns meta dict"""
    os.makedirs(bdir, exist_ok=True)
    inst = os.path.join(u['dir'], u.get('inst', 'inst.cpp'))
    ast = os.path.join(bdir, 'ast.json')
    t0 = time.time()
    try:
        run_clang(inst, [os.path.join(REPO, 'include'), os.path.join(ROOT, 'stubs')], ast,
                  extra=u.get('clang_flags', []))
        ex = Extractor(ast, repo_root=REPO, inst_cpp=inst, include_dirs=[os.path.join(REPO, 'include'), os.path.join(ROOT, 'stubs')],
                       workdir=bdir, clang_flags=u.get('clang_flags', []))
        contracts = os.path.join(u['dir'], u.get('contracts', 'contracts.c'))
        lc = parse_contract_file(contracts)
        unmatched = []
        try:
            text = ex.lower(u['roots'], lc, exclude=u.get('exclude', ()), extern=u.get('extern', ()), opts=u.get('lower_opts'))
        except ExtractError as e:
            if 'loop contracts for loops that do not exist' not in str(e):
                raise
            # The loops of some function changed shape, so the contracts keyed by loop ordinal no longer attach. Fall back for exactly
            # those functions: lower them without loop contracts; their obligations are then run with a small unwinding bound (class B).
            ex.lower(u['roots'], {}, exclude=u.get('exclude', ()), extern=u.get('extern', ()), opts=u.get('lower_opts'))
            for fn in sorted(set(f for f, _ in lc)):
                n = ex.meta.get(fn, {}).get('loops')
                if n is None or set(range(n)) != set(k for f, k in lc if f == fn):
                    unmatched.append(fn)
            lc = {k: v for k, v in lc.items() if k[0] not in unmatched}
            text = ex.lower(u['roots'], lc, exclude=u.get('exclude', ()), extern=u.get('extern', ()), opts=u.get('lower_opts'))
        text = run_probe(ex, text, inst, [os.path.join(REPO, 'include'), os.path.join(ROOT, 'stubs')], bdir,
                         clang_flags=u.get('clang_flags', []))
    except ExtractError as e:
        raise ToolFailure('extraction of unit %s aborted: %s' % (u['name'], e))
    finally:
        if os.path.exists(ast) and not os.environ.get('FRGV_KEEP_AST'):
            os.unlink(ast)
    open(os.path.join(bdir, 'unit.c'), 'w').write(text)
    meta = {'functions': ex.meta, 'externs': ex.externs, 'records': ex.records_used,
            'layout_asserts': ex.layout_asserts, 'extract_s': round(time.time() - t0, 2), 'loops_unmatched': unmatched}
    # the layout self-check is decided by a native compile of the lowered text
    pre = []
    for p_ in u.get('first_includes', []):
        pre = ['-include', os.path.join(u['dir'], p_)] + pre
    for p_ in u.get('pre_includes', []):
        pre += ['-include', os.path.join(u['dir'], p_)]
    chk = subprocess.run(['gcc', '-fsyntax-only', '-std=gnu11', '-I', os.path.join(ROOT, 'stubs'), '-DFRGV_NATIVE', '-w',
                          '-include', 'frgv_prelude.h'] + pre + ['-x', 'c', os.path.join(bdir, 'unit.c')],
                         stdout=subprocess.PIPE, stderr=subprocess.PIPE, text=True)
    if chk.returncode != 0:
        raise ToolFailure('unit %s: lowered C does not compile natively / layout self-check failed:\n%s' % (u['name'], chk.stderr[-2000:]))
    # loops that must carry a contract
    need = u.get('loop_contracts_required', [])
    loops = parse_contract_file(contracts)
    for fn in need:
        if fn in unmatched:
            continue
        n = ex.meta.get(fn, {}).get('loops')
        if n is None:
            raise ToolFailure('unit %s: function %s (loop contracts required) was not extracted' % (u['name'], fn))
        for k in range(n):
            if (fn, k) not in loops:
                raise ToolFailure('unit %s: loop %s#%d has no contract' % (u['name'], fn, k))
    json.dump(meta, open(os.path.join(bdir, 'meta.json'), 'w'), indent=1)
    # translation unit: prelude + lowered code + contracts + harness
    tu = ['#include "%s"' % os.path.join(u['dir'], f_) for f_ in u.get('first_includes', [])]
    tu.append('#include "frgv_prelude.h"')
    for pre in u.get('pre_includes', []):
        tu.append('#include "%s"' % os.path.join(u['dir'], pre))
    tu.append('#include "%s"' % os.path.join(bdir, 'unit.c'))
    srcs = list(u.get('sources', ['contracts.c', 'harness.c']))
    for f in srcs:
        p = os.path.join(u['dir'], f)
        if os.path.exists(p):
            tu.append('#include "%s"' % p)
    gen = getattr(u['module'], 'generate', None)
    if gen is not None:
        for gf in gen(bdir, tier):
            tu.append('#include "%s"' % gf)
    if u.get('auto_harness'):
        open(os.path.join(bdir, 'auto_harness.c'), 'w').write(auto_harness_text(u))
        tu.append('#include "%s"' % os.path.join(bdir, 'auto_harness.c'))
    open(os.path.join(bdir, 'tu.c'), 'w').write('\n'.join(tu) + '\n')
    return meta

# ------------------------------------------------------------------------------------------ cbmc
HEAVY_MEM_KB = int(os.environ.get('FRGV_HEAVY_MEM_KB', str(44 * 1024 * 1024)))

def run(cmd, timeout, log=None, mem_kb=None):
    pre = 'ulimit -v %d; ' % (mem_kb or MEM_KB)
    t0 = time.time()
    try:
        p = subprocess.run(['bash', '-c', pre + 'exec "$@"', 'x'] + cmd, stdout=subprocess.PIPE, stderr=subprocess.PIPE,
                           timeout=timeout, text=True)
        rc, out, err = p.returncode, p.stdout, p.stderr
    except subprocess.TimeoutExpired as e:
        rc, out, err = -9, (e.stdout or b'').decode() if isinstance(e.stdout, bytes) else (e.stdout or ''), 'TIMEOUT'
    dt = time.time() - t0
    if log:
        with open(log, 'a') as f:
            f.write('$ %s\n[rc=%s, %.1fs]\n%s\n%s\n' % (' '.join(cmd), rc, dt, out[-200000:], err[-20000:]))
    return rc, out, err, dt

def parse_cbmc_json(out):
    """returns (results list, messages list) from cbmc --json-ui output"""
    try:
        data = json.loads(out)
    except json.JSONDecodeError:
        # truncated output (timeout): no results
        return None, []
    results = None
    msgs = []
    for item in data:
        if 'result' in item:
            results = item['result']
        if 'messageText' in item:
            msgs.append(item['messageText'])
    return results, msgs

CANARY = 'canary'

def run_obligation(u, ob, bdir, trace=False):
    """solve one obligation; a failing one is solved again with --trace (inside the same worker)"""
    res = run_obligation1(u, ob, bdir, trace)
    if res['status'] == 'fail' and not trace:
        rt = run_obligation1(u, ob, bdir, True)
        if rt['status'] == 'fail':
            rt['solver_s'] = res['solver_s']
            return rt
    return res

def run_obligation1(u, ob, bdir, trace=False):
    """compile, instrument, solve one obligation; returns a result dict"""
    oid = ob['id']
    safe = re.sub(r'[^A-Za-z0-9_.-]', '_', oid)
    odir = os.path.join(bdir, 'ob')
    os.makedirs(odir, exist_ok=True)
    log = os.path.join(odir, safe + '.log')
    if os.path.exists(log):
        os.unlink(log)
    gb1 = os.path.join(odir, safe + '.1.gb')
    gb2 = os.path.join(odir, safe + '.2.gb')
    for f in (gb1, gb2):
        if os.path.exists(f):
            os.unlink(f)
    res = {'id': oid, 'unit': u['name'], 'cls': ob['cls'], 'status': 'error', 'obligations': 0, 'failed': [],
           'solver_s': 0.0, 'kf': ob.get('kf'), 'serves': ob.get('serves', []), 'bound': ob.get('bound'),
           'function': ob.get('function') or (ob.get('enforce') or [''])[0].split('/')[0]}
    entry = ob['entry']
    defs = ['-D' + d for d in (u.get('defines', []) + ob['defines'])]
    cmd = ['goto-cc', '-I', os.path.join(ROOT, 'stubs'), '-I', u['dir'], '--function', entry] + defs + \
          [os.path.join(bdir, 'tu.c'), '-o', gb1]
    rc, out, err, dt = run(cmd, 300, log)
    if rc != 0 or not os.path.exists(gb1):
        res['detail'] = 'goto-cc failed: ' + (err or out)[-1500:]
        return res
    inst = ['goto-instrument']
    use_dfcc = bool(ob.get('enforce') or ob.get('replace') or ob.get('loops'))
    if use_dfcc:
        inst += ['--dfcc', entry]
        for e in ob.get('enforce', []):
            inst += ['--enforce-contract', e]
        for r in ob.get('replace', []):
            inst += ['--replace-call-with-contract', r]
        if ob.get('loops'):
            inst += ['--apply-loop-contracts']
        inst += ob.get('instrument_flags', [])
        inst += [gb1, gb2]
        rc, out, err, dt = run(inst, 600, log)
        if rc != 0 or not os.path.exists(gb2):
            res['detail'] = 'goto-instrument failed: ' + (err or out)[-3000:]
            return res
        target = gb2
    else:
        target = gb1
    cb = ['cbmc', target, '--json-ui'] + CBMC_CHECKS + ob['flags']
    if ob.get('unwind') is not None:
        cb += ['--unwind', str(ob['unwind'])] + ([] if ob.get('no_unwinding_assertions') else ['--unwinding-assertions'])
        if ob.get('recursion') is not None:
            # tighter bound for the recursive red-black fix-ups (still guarded by unwinding assertions)
            try:
                fns = json.load(open(os.path.join(bdir, 'meta.json')))['functions']
            except Exception:
                fns = {}
            rs = ['%s:%d' % (f, ob['recursion']) for f in fns if f.endswith(('_fix_insert', '_fix_remove')) or f in ob.get('recursive_fns', ())]
            if rs:
                cb += ['--unwindset', ','.join(rs)]
    if ob.get('unwindset'):
        cb += ['--unwindset', ','.join(ob['unwindset'])]
    if ob.get('object_bits'):
        cb += ['--object-bits', str(ob['object_bits'])]
    if ob.get('leak'):
        cb += ['--memory-leak-check']
    if trace:
        cb += ['--trace']
    res['checker_cmd'] = ' '.join(inst[:1] + [x for x in inst[1:] if not x.endswith('.gb')]) + ' && ' + \
        ' '.join(x for x in cb if not x.endswith('.gb'))
    rc, out, err, dt = run(cb, ob['timeout'], log, mem_kb=HEAVY_MEM_KB if ob.get('heavy') else (ob.get('mem_gb') * 1024 * 1024 if ob.get('mem_gb') else None))
    res['solver_s'] = round(dt, 2)
    if err == 'TIMEOUT':
        res['status'] = 'timeout'
        res['detail'] = 'cbmc exceeded %ss' % ob['timeout']
        return res
    results, msgs = parse_cbmc_json(out)
    text_msgs = '\n'.join(msgs)
    if results is None:
        res['detail'] = 'cbmc gave no result (rc=%s): %s' % (rc, (text_msgs or err)[-2000:])
        if 'out of memory' in (text_msgs + err).lower() or rc in (-9, 137, 134) or 'bad_alloc' in err:
            res['status'] = 'oom'
        return res
    if re.search(r'ignoring (forall|exists)', text_msgs):
        res['detail'] = 'quantifier ignored by the back end'
        return res
    nobody = [m for m in re.findall(r"no body for (?:callee|function) ([A-Za-z_0-9]+)", text_msgs)
              if m not in u.get('bodyless_ok', ()) and not m.startswith('__CPROVER') and not m.startswith('nondet_')]
    if nobody:
        res['detail'] = 'functions without body or contract: %s' % sorted(set(nobody))
        return res
    canary_seen = False
    canary_reached = False
    entry_reached = False
    kinds = set()
    total = 0
    failed = []
    for r in results:
        desc = r.get('description', '')
        prop = r.get('property', '')
        st = r.get('status')
        if desc.startswith('canary0'):
            entry_reached = (st == 'FAILURE')
            continue
        if desc.startswith(CANARY):
            canary_seen = True
            if st == 'FAILURE':
                canary_reached = True
            continue
        total += 1
        for kname in ('postcondition', 'loop invariant', 'decreases', 'precondition', 'assigns', 'FRG_ASSERT',
                      'unwinding assertion', 'recursion unwinding'):
            if kname in desc or kname in prop.replace('_', ' '):
                kinds.add(kname)
        if 'invariant' in desc and 'loop' in desc:
            kinds.add('loop invariant')
        if 'decreases' in desc or 'variant' in desc and 'decreas' in desc:
            kinds.add('decreases')
        if st != 'SUCCESS':
            item = {'property': prop, 'description': desc, 'status': st,
                    'source': r.get('sourceLocation', {})}
            if trace and 'trace' in r:
                item['trace'] = summarize_trace(r['trace'])
            failed.append(item)
    res['obligations'] = total
    res['failed'] = failed
    res['kinds'] = sorted(kinds)
    if any(r.get('status') == 'ERROR' for r in results):
        res['status'] = 'oom'
        res['detail'] = 'solver error (out of memory) while deciding some properties: ' + text_msgs[-300:]
        return res
    if not canary_seen:
        res['detail'] = 'harness has no reachability canary'
        return res
    if ob.get('expect_no_return'):
        # the function must never return normally under this precondition (it stops in the assertion hook)
        if not entry_reached:
            res['detail'] = 'harness entry not reachable'
            res['status'] = 'vacuous'
            return res
        if canary_reached:
            failed.append({'property': 'no_return', 'description': 'function returns normally although the contract says it must stop in the assertion hook',
                           'status': 'FAILURE', 'source': {}})
    elif not canary_reached:
        real = [f for f in failed if 'unwinding assertion' not in f['description'] and 'recursion unwinding' not in f['description']]
        if not real:
            res['detail'] = 'reachability canary did not fire: precondition or harness is vacuous'
            res['status'] = 'vacuous'
            return res
        # an obligation failed on every path to the end of the harness (each failing assertion also ends its path): that is a failure
        # of those obligations, not a vacuous harness
    if total == 0:
        res['detail'] = 'no obligations generated'
        res['status'] = 'vacuous'
        return res
    for need in ob.get('expect_kinds', []):
        if need not in kinds:
            res['detail'] = 'expected obligation kind %r missing (contract silently dropped?)' % need
            return res
    # unwinding assertion failures on a proof-class obligation are tool limits, not violations
    unw = [f for f in failed if 'unwinding assertion' in f['description'] or 'recursion unwinding' in f['description']]
    if unw and len(unw) == len(failed) and not ob.get('unwind_is_property'):
        res['status'] = 'unwind'
        res['detail'] = 'unwinding assertion failed (bound %s too small): %s' % (ob.get('unwind'), unw[0]['description'])
        return res
    res['status'] = 'fail' if failed else 'pass'
    return res

def summarize_trace(tr):
    """keep assignments to harness inputs / named variables, drop internals"""
    out = []
    for st in tr:
        if st.get('stepType') == 'assignment' and not st.get('hidden'):
            lhs = st.get('lhs', '')
            if lhs.startswith('__CPROVER') or lhs.startswith('return_value') or '$' in lhs and 'tmp' in lhs:
                continue
            v = st.get('value', {})
            val = v.get('data', v.get('name'))
            fn = st.get('sourceLocation', {}).get('function')
            out.append({'lhs': lhs, 'value': val, 'function': fn, 'line': st.get('sourceLocation', {}).get('line')})
        elif st.get('stepType') == 'failure':
            out.append({'failure': st.get('reason'), 'property': st.get('property'),
                        'line': st.get('sourceLocation', {}).get('line'), 'function': st.get('sourceLocation', {}).get('function')})
    return out[-400:]

# ------------------------------------------------------------------------------------------ known findings
def load_known_findings():
    known, fixed = {}, []
    if os.path.exists(KF_FILE):
        for ln in open(KF_FILE):
            ln = ln.strip()
            if ln.startswith('known:'):
                kv = dict(re.findall(r'(\w+)=(\S+)', ln))
                if 'finding' in kv:
                    kv['text'] = ln
                    known[kv['finding']] = kv
            elif ln.startswith('fixed:'):
                fixed.append(ln)
    return known, fixed

def kf_matches(entry, r):
    """a listed finding covers a failing run only if it is the listed obligation and every failed obligation in it carries the
    listed text: any other failure of the same run is a violation"""
    if entry.get('obligation') and entry['obligation'] != r['id'].split('.', 1)[-1] and entry['obligation'] != r['id']:
        return False
    m = entry.get('match')
    if m:
        m = m.replace('_', ' ')
        return all(m in f['description'] for f in r['failed'])
    return True

# ------------------------------------------------------------------------------------------ check
def props_table():
    t = {}
    for ln in open(os.path.join(ROOT, 'properties.jsonl')):
        if ln.strip():
            p = json.loads(ln)
            t[p['id']] = p
    return t

def scan_assumptions(u):
    """mechanical scan for assume/stub contracts in contracts.c, harness.c and the stubs they include"""
    out = []
    files = [os.path.join(u['dir'], f) for f in u.get('sources', ['contracts.c', 'harness.c'])]
    files += [os.path.join(u['dir'], f) for f in u.get('pre_includes', [])]
    for f in files:
        if not os.path.exists(f):
            continue
        txt = open(f).read()
        n_assume = len(re.findall(r'__CPROVER_assume\s*\(', txt))
        if n_assume:
            out.append('%s: %d __CPROVER_assume (harness state constraints / stub models)' % (os.path.relpath(f, ROOT), n_assume))
        for m in re.finditer(r'/\*\s*ASSUMED:\s*(.*?)\*/', txt, re.S):
            out.append('%s: %s' % (os.path.relpath(f, ROOT), ' '.join(m.group(1).split())))
    return out

def check(prop, tier, only=None):
    t0 = time.time()
    seed = int(os.environ.get('VERIF_SEED', '0') or 0)
    props = props_table()
    if prop not in props:
        print('unknown property %s' % prop)
        return 2
    known, fixed = load_known_findings()
    units = []
    for name in all_units():
        u = load_unit(name)
        obs = [o for o in unit_obligations(u, tier) if prop in o.get('serves', [])]
        if only:
            obs = [o for o in obs if re.search(only, o['id'])]
            global EVID, REPLAYS          # a partial run is a debugging aid: its evidence does not replace the full one
            EVID = os.path.join(ROOT, 'build', 'evidence_scratch'); REPLAYS = os.path.join(ROOT, 'build', 'replays_scratch')
        if obs:
            units.append((u, obs))
    if not units:
        print('property %s has no check (see MANIFEST not_applicable)' % prop)
        return 2
    results = []
    metas = {}
    assumptions = []
    try:
        bdirs = {}
        for u, obs in units:
            bdir = os.path.join(BUILD, prop, u['name'])
            if os.path.isdir(bdir):
                shutil.rmtree(bdir)
            metas[u['name']] = extract_unit(u, bdir, tier)
            bdirs[u['name']] = bdir
            for fn in metas[u['name']].get('loops_unmatched', []):
                for ob in obs:
                    if ob.get('function') == fn and ob.get('loops'):
                        k = ob.get('fallback_unwind', 4)
                        ob.update(loops=False, unwind=k, no_unwinding_assertions=True, cls='B',
                                  expect_kinds=[x for x in ob.get('expect_kinds', []) if 'loop' not in x and x != 'decreases'],
                                  bound='the loops of %s changed shape, so its loop contracts (keyed by loop ordinal) no longer attach: the loops are '
                                        'unwound %d times instead and longer runs are not explored' % (fn, k))
                print('NOTE unit %s: loop contracts of %s do not attach to the current code; falling back to a bounded run' % (u['name'], fn))
            assumptions += scan_assumptions(u)
            assumptions += u.get('assumptions', [])
        with concurrent.futures.ThreadPoolExecutor(max_workers=JOBS) as ex:
            futs = []
            for u, obs in units:
                for ob in sorted(obs, key=lambda o: -o.get('cost', 1)):
                    if not ob.get('heavy'):
                        futs.append(ex.submit(run_obligation, u, ob, bdirs[u['name']]))
            for f in futs:
                results.append(f.result())
        # memory-hungry obligations run one at a time with a larger memory limit
        for u, obs in units:
            for ob in obs:
                if ob.get('heavy'):
                    results.append(run_obligation(u, ob, bdirs[u['name']]))
    except ToolFailure as e:
        print('TOOL-FAILURE property=%s %s' % (prop, e))
        return 2
    unit_by_name = {u['name']: u for u, _ in units}
    ob_by_id = {o['id']: o for _, obs in units for o in obs}
    # ---- classify
    tool_fail = [r for r in results if r['status'] not in ('pass', 'fail')]
    violations = []
    kf_lines = []
    for r in results:
        if r['status'] != 'fail':
            continue
        kf = r.get('kf')
        if kf and kf in known and kf_matches(known[kf], r):
            kf_lines.append('KNOWN-FINDING: property=%s %s (obligation %s: %s)' % (
                prop, known[kf].get('what', kf).replace('_', ' '), r['id'], r['failed'][0]['description'][:120]))
            continue
        violations.append(r)
    rc = 0
    replay_paths = []
    if violations:
        os.makedirs(REPLAYS, exist_ok=True)
        for r in violations:
            u = unit_by_name[r['unit']]
            ob = ob_by_id[r['id']]
            rt = r     # already carries the counterexample trace (see run_obligation)
            path = os.path.join(REPLAYS, '%s-%s.json' % (prop, re.sub(r'[^A-Za-z0-9_.-]', '_', r['id'])))
            rep = {'property': prop, 'unit': r['unit'], 'obligation': r['id'], 'function': r.get('function'),
                   'source': metas[r['unit']]['functions'].get(r.get('function'), {}),
                   'failed': (rt if rt['status'] == 'fail' else r)['failed'], 'checker_cmd': r.get('checker_cmd'),
                   'tier': tier}
            native = native_replay(u, ob, rep)
            rep['native_replay'] = native
            json.dump(rep, open(path, 'w'), indent=1)
            suffix = '' if native and native.get('confirmed') else ' no-failing-input-found'
            print('VIOLATION property=%s replay=%s obligation=%s (%s)%s' % (
                prop, path, r['id'], r['failed'][0]['description'][:100], suffix))
            replay_paths.append(path)
        rc = 1
    for ln in kf_lines:
        print(ln)
    if tool_fail and rc == 0:
        for r in tool_fail:
            print('TOOL-FAILURE property=%s obligation=%s status=%s %s' % (prop, r['id'], r['status'], r.get('detail', '')[:600]))
        rc = 2
    # ---- evidence
    write_evidence(prop, tier, seed, results, metas, units, assumptions, time.time() - t0, violations, kf_lines, rc)
    for r in results:
        if r['status'] != 'pass' and os.environ.get('FRGV_VERBOSE'):
            print('  %-8s %s: %s' % (r['status'], r['id'], '; '.join('%s [%s:%s]' % (f['description'][:90], f['source'].get('function'), f['source'].get('line')) for f in r['failed'][:4]) or r.get('detail', '')[:200]))
    np = sum(1 for r in results if r['status'] == 'pass')
    print('%s tier=%s: %d/%d checks passed, %d obligations, %.0fs%s' % (
        prop, tier, np, len(results), sum(r['obligations'] for r in results), time.time() - t0,
        '' if rc == 0 else ' (exit %d)' % rc))
    return rc

def native_replay(u, ob, rep):
    """replay a counterexample against the real C++ headers, when the unit ships a driver for it"""
    drv = getattr(u['module'], 'native_replay', None)
    if drv is None:
        return {'confirmed': False, 'reason': 'unit has no native replay driver for this obligation'}
    try:
        return drv(ob, rep, REPO, BUILD)
    except Exception as e:   # a broken driver must not hide the violation
        return {'confirmed': False, 'reason': 'replay driver error: %s' % e}

def write_evidence(prop, tier, seed, results, metas, units, assumptions, wall, violations, kf_lines, rc):
    os.makedirs(EVID, exist_ok=True)
    proved = [r for r in results if r['cls'] in ('P', 'Pc') and not r.get('kf')]
    bounded = [r for r in results if r['cls'] == 'B' and not r.get('kf')]
    kfr = [r for r in results if r.get('kf')]
    n_obl = sum(r['obligations'] for r in proved)
    n_dis = sum(r['obligations'] - len(r['failed']) for r in proved if r['status'] in ('pass', 'fail'))
    fu = {}
    for uname, m in metas.items():
        used = set()
        for r in results:
            if r['unit'] == uname and r.get('function'):
                used.add(r['function'])
        for fn, info in m['functions'].items():
            fu['%s:%s' % (uname, fn)] = {'file': info['file'], 'lines': info['lines'], 'sha256_16': info['sha256_16'],
                                           'enforced': fn in used}
    samples = []
    for r in (proved + bounded)[:12]:
        samples.append({'obligation': r['id'], 'class': r['cls'], 'function': r.get('function'), 'status': r['status'],
                        'cbmc_properties': r['obligations'], 'kinds': r.get('kinds', []), 'bound': r.get('bound')})
    level = 'proof' if n_obl > 0 else 'other'
    try:    # the level recorded is the level claimed in MANIFEST.json; the keys below are what this run measured for it
        for c_ in json.load(open(os.path.join(ROOT, 'MANIFEST.json')))['checks']:
            if c_['property_id'] == prop:
                level = c_['level_claimed']['category']
    except Exception:
        pass
    cov = {
        'obligations': n_obl, 'discharged': n_dis,
        'checker_cmd': (proved or bounded or results)[0].get('checker_cmd', 'goto-cc | goto-instrument --dfcc | cbmc') if results else '',
        'trusted_base': ['clang 14 parser/sema and JSON AST dump', 'frg2c lowering (DESIGN.md section 3)',
                         'goto-cc / goto-instrument --dfcc / cbmc 6.11.0, SAT back end (minisat)',
                         'stub contracts listed under assumptions'],
        'samples': samples,
        'explanation': 'Contract obligations (classes P/Pc) are discharged per function by CBMC on C text lowered '
                       'mechanically from the instantiated clang AST of /repo/include; bounded stand-ins (class B) '
                       'are listed under "bounded" and are not counted in obligations/discharged.',
        'checks_proved': [{'id': r['id'], 'class': r['cls'], 'function': r.get('function'), 'cbmc_properties': r['obligations'],
                           'failed': len(r['failed']), 'status': r['status'], 'solver_s': r['solver_s']} for r in proved],
        'bounded': [{'id': r['id'], 'bound': r.get('bound'), 'cbmc_properties': r['obligations'], 'failed': len(r['failed']),
                     'status': r['status'], 'solver_s': r['solver_s']} for r in bounded],
        'known_finding_runs': [{'id': r['id'], 'finding': r['kf'], 'status': r['status']} for r in kfr],
        'functions_under_contract': fu,
        'backend': 'cbmc 6.11.0 default SAT (MiniSat 2.2.1 with simplifier)',
        'solver_seconds': round(sum(r['solver_s'] for r in results), 1),
        'extract_seconds': {k: v['extract_s'] for k, v in metas.items()},
        'known_findings_seen': kf_lines,
        'exit_code': rc,
    }
    if bounded or level != 'proof':
        if not bounded:
            bounded_for_counts = proved
        else:
            bounded_for_counts = bounded
        cov['evaluations'] = len(bounded_for_counts)
        cov['distinct_nontrivial'] = len(set(r['id'] for r in bounded_for_counts if r['obligations'] > 0 and r['status'] in ('pass', 'fail')))
        cov['rule'] = ('each bounded check (class B) is one CBMC run over one (harness, configuration, bound) triple with distinct id; '
                       'evaluations = runs started, distinct_nontrivial = runs with a distinct id that generated at least one CBMC property '
                       'and reached the end of their harness (reachability canary fired); CBMC properties per run are listed under "bounded"')
    if level == 'proof' and n_obl == 0:
        cov['explanation'] += ' NOTE: no class P obligation was generated in this run: nothing is proved.'
    ev = {'property_id': prop, 'tier': tier, 'seed': seed, 'level': level, 'coverage': cov,
          'assumptions': sorted(set(assumptions)), 'wall_s': round(wall, 1), 'violations': len(violations)}
    json.dump(ev, open(os.path.join(EVID, prop + '.json'), 'w'), indent=1)

# ------------------------------------------------------------------------------------------ main
def main():
    ap = argparse.ArgumentParser()
    sub = ap.add_subparsers(dest='cmd')
    c = sub.add_parser('check')
    c.add_argument('prop')
    c.add_argument('--tier', default=os.environ.get('VERIF_TIER') or 'quick')
    c.add_argument('--only')
    r = sub.add_parser('replay')
    r.add_argument('path')
    e = sub.add_parser('extract')
    e.add_argument('unit')
    sub.add_parser('selfcheck')
    a = ap.parse_args()
    if a.cmd == 'check':
        tier = a.tier if a.tier in ('quick', 'thorough') else 'quick'
        return check(a.prop, tier, a.only)
    if a.cmd == 'extract':
        u = load_unit(a.unit)
        bdir = os.path.join(BUILD, '_extract', u['name'])
        try:
            m = extract_unit(u, bdir)
        except ToolFailure as ex:
            print(ex)
            return 2
        print(os.path.join(bdir, 'unit.c'), len(m['functions']), 'functions')
        return 0
    if a.cmd == 'replay':
        rep = json.load(open(a.path))
        u = load_unit(rep['unit'])
        obs = [o for o in unit_obligations(u, rep.get('tier', 'quick')) if o['id'] == rep['obligation']]
        if not obs:
            print('obligation %s no longer exists' % rep['obligation'])
            return 2
        bdir = os.path.join(BUILD, '_replay', u['name'])
        try:
            extract_unit(u, bdir)
        except ToolFailure as ex:
            print(ex)
            return 2
        res = run_obligation(u, obs[0], bdir, trace=True)
        print(json.dumps({'obligation': res['id'], 'status': res['status'], 'failed': res['failed'][:3]}, indent=1)[:6000])
        nat = native_replay(u, obs[0], rep)
        print('native replay:', json.dumps(nat)[:2000])
        return 1 if res['status'] == 'fail' else (0 if res['status'] == 'pass' else 2)
    if a.cmd == 'selfcheck':
        ok = True
        for tool in ('clang++', 'goto-cc', 'goto-instrument', 'cbmc', 'g++'):
            if shutil.which(tool) is None:
                print('missing tool: %s' % tool)
                ok = False
        for name in all_units():
            try:
                load_unit(name)
            except Exception as ex:
                print('unit %s does not load: %s' % (name, ex))
                ok = False
        os.makedirs(BUILD, exist_ok=True)
        print('selfcheck %s: %d units' % ('ok' if ok else 'FAILED', len(all_units())))
        return 0 if ok else 2
    ap.print_help()
    return 2

if __name__ == '__main__':
    sys.exit(main())
