"""Per-property claims (source of MANIFEST.json)."""
CLAIMS = {
 'C06': dict(category='proof',
   text='Rotations proved for all inputs against neighbourhood contracts that state the header picture, frame included (class P).',
   note='Trusted: clang AST + frg2c lowering, CBMC 6.11 DFCC/SAT, comparator stub (pure, by key). Induction from local steps to unbounded trees is a hand argument.'),

 'C18': dict(category='proof',
   text='bitset<N> (9 sizes incl. multiples of 64 and neighbours): every mutator/query/constructor/proxy operation proved bit-for-bit against the std::bitset semantics for all contents, all positions and ALL 2^64 shift amounts, incl. frame and the bits>=N invariant (class Pc, loops over <=4 words fully unrolled); array accessors proved to return the std::array addresses; pcg32 step/seed/bounded-draw contracts proved (z3 for the 64-bit multiply); mt19937 and insertion_sort are bounded stand-ins (reference vector; arrays of length <=5/6).',
   note='Trusted: clang AST + frg2c lowering (layout self-check on every run), CBMC 6.11 DFCC, SAT and z3 back ends. bitset verified per listed N, not for all N in one proof. mt19937 only bounded (reference outputs for two seeds); array_concat not covered (std::tuple_size_v outside the lowered AST).'),

 'C17': dict(category='proof',
   text='optional<T>, expected<E,T>, variant<int,T,char>, manual_box<T>, tuple: every constructor, copy/move, all assignment (destination state x source state incl. empty<-empty, different alternative), emplace, destruction and accessor is proved against a contract stating the std:: state machine (engaged flag / tag / error code, held value, accessor returns the address of the held object, source unchanged or moved-from) for T with observable lifetime; loop-free, all inputs (class P).',
   note='Trusted: clang AST + frg2c lowering (layout self-check), CBMC 6.11 DFCC + SAT, element-type stub (value + in-band lifetime flags, operations do not fail). Verified for the listed instantiations, not for all T. apply/tuple_cat/map/map_error and the converting optional assignments are not covered.'),

 'C12': dict(category='proof',
   text='Guards: every operation of unique_lock, shared_lock and the QS lock_guard (construct locked/deferred/adopted, lock, unlock, move-construct, assign incl. same-mutex, swap, destroy from every ownership state) proved against counting-mutex contracts: an owning guard accounts for exactly one acquisition, release goes through the matching call exactly once, transfers leave the mutex counters untouched (class P, loop-free). Spinlocks: thread-modular rely/guarantee contracts: lock() returns only after an acquire-ordered observation of its own ticket / of an exchange that read false, unlock() is a release store by the holder handing over to exactly the next ticket; the environment may act arbitrarily within the stated rely at every atomic access (class P under the rely).',
   note='Trusted: clang AST + frg2c lowering, CBMC DFCC + SAT; mutex stub only counts calls; rely conditions of the spinlock proofs (other threads only take tickets / only the holder advances serving_ticket_; RMW atomicity) and release/acquire message passing are assumed, not checked; no interleavings are explored; eventual acquisition (fairness) not decided.'),

 'C15': dict(category='proof',
   text='string_view: operator==, find_first, find_first_of, find_last, sub_string (incl. that the bounds assertion rejects every out-of-range and wrapping (from,size)), starts_with/ends_with, to_number<int|unsigned|long|unsigned long>, hash and generic_strlen proved with loop contracts for every content and every length up to the 4096-byte object bound, on exact-size buffers, with first/last-occurrence and equality facts stated through ghost indices (class P). Owned strings: construction from C strings / (ptr,len) / views / fill, copy, assignment, resize, +, +=, push_back, compare/==, view conversion checked for all strings of length <= 6 over the full byte alphabet incl. the data()[size()]==0 invariant, exact allocation size and no leak (class B).',
   note='Trusted: clang AST + frg2c lowering, CBMC DFCC + SAT, allocator stub = CBMC allocation model. Char = char only; views with a null data pointer are left out (CBMC flags nullptr+0). to_number value equation and owned-string content equality are bounded (class B), not proved for all lengths.'),
}
_ALL = ['C%02d' % i for i in range(1, 21)]
NOT_APPLICABLE = {p: 'check not built yet in this session (planned, see DESIGN.md section 7); not a statement about the technique' for p in _ALL if p not in CLAIMS}
