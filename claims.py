"""Per-property claims (source of MANIFEST.json)."""
CLAIMS = {
 'C06': dict(category='proof',
   text='Rotations proved for all inputs against neighbourhood contracts that state the header picture, frame included (class P).',
   note='Trusted: clang AST + frg2c lowering, CBMC 6.11 DFCC/SAT, comparator stub (pure, by key). Induction from local steps to unbounded trees is a hand argument.'),
}
_ALL = ['C%02d' % i for i in range(1, 21)]
NOT_APPLICABLE = {p: 'check not built yet in this session (planned, see DESIGN.md section 7); not a statement about the technique' for p in _ALL if p not in CLAIMS}
