/* C19: printf_format + do_printf_* against ISO C, byte for byte, on enumerated directive families (class B).
 * Everything in a run is concrete (directive, arguments, expected bytes from the host C library computed at generation time, see gen.py):
 * CBMC executes the lowered frigg code exhaustively for each case and compares what reaches the sink with the expected bytes. */
unsigned frgv_assert_hook_hits;
#define FRGV_CANARY() __CPROVER_assert(0, "canary: end of harness reachable")
#ifndef C19_BATCH
#define C19_BATCH 0
#endif
/* ---- sink: bounded buffer; the order of appends is the order of the bytes */
#define OUTMAX 200
static char out[OUTMAX]; static int outlen; static _Bool out_overflow;
void frgv_vsink_append_0(struct frgv_vsink *this, char c) { if (outlen < OUTMAX) out[outlen++] = c; else out_overflow = 1; }
void frgv_vsink_append_1(struct frgv_vsink *this, char *s) { for (int i = 0; s[i] != 0; i++) frgv_vsink_append_0(this, s[i]); }
/* ---- variadic arguments of the current case */
#ifndef C19_NCASES
struct c19_case_dummy_ { int x; };
#endif
static const struct c19_case *cur; static int va_used;
static long long va_islot[4]; static void *va_pslot[4];
void *frgv_va_next(unsigned long size, int is_pointer)
{
	__CPROVER_assert(va_used < cur->nargs, "C19/C20: a variadic argument beyond those supplied is taken");
	__CPROVER_assume(va_used < cur->nargs);
	int k = va_used++;
	if (is_pointer) { va_pslot[k] = cur->args[k].kind == 1 ? (void *)cur->args[k].s : (void *)(unsigned long)cur->args[k].i; return &va_pslot[k]; }
	va_islot[k] = cur->args[k].i; return &va_islot[k];
}
/* ---- the agent, as a user writes it (tests/tests.cpp has the same shape) */
struct res frgv_vagent_op_call_0(struct frgv_vagent *this, char c) { frgv_vsink_append_0(this->sink_, c); struct res r; r.e_ = frg_format_error_success; return r; }
struct res frgv_vagent_op_call_1(struct frgv_vagent *this, char *c, unsigned long n) { for (unsigned long i = 0; i < n; i++) frgv_vsink_append_0(this->sink_, c[i]); struct res r; r.e_ = frg_format_error_success; return r; }
struct res frgv_vagent_op_call_2(struct frgv_vagent *this, char t, struct fo *opts, frg_printf_size_mod szmod)
{
	struct res r; r.e_ = frg_format_error_success;
	if (t == 'c' || t == 's' || t == 'p') frg_do_printf_chars__frgv_vsink(this->sink_, t, opts, szmod, this->vsp_);
	else { struct lo l; lo_ctor_default(&l); frg_do_printf_ints__frgv_vsink(this->sink_, t, opts, szmod, this->vsp_, l); }
	return r;
}
#ifdef C19_NCASES
void h_c19_printf(void)
{
	for (int ci = 0; ci < C19_NCASES; ci++) {
#ifdef C19_ONLY
		if (ci != C19_ONLY) continue;
#endif
		cur = &c19_cases[ci]; va_used = 0; outlen = 0; out_overflow = 0;
		union frg_arg arg_list[9];
		struct vas vs; vs.arg_list = arg_list; vs.num_args = 0;
		struct frgv_vsink sink; struct frgv_vagent agent; agent.sink_ = &sink; agent.vsp_ = &vs;
		struct res r = frg_printf_format__frgv_vagent(agent, (char *)cur->fmt, &vs);
		_Bool same = (outlen == cur->wantlen) && !out_overflow;
		for (int i = 0; i < cur->wantlen; i++) if (i < outlen && out[i] != cur->want[i]) same = 0;      /* wantlen is concrete */
		__CPROVER_assert(r.e_ == frg_format_error_success, "printf_format succeeds");
		__CPROVER_assert(same, "C19: the bytes appended to the sink are exactly what ISO C printf prescribes for this directive and these arguments");
		__CPROVER_assert(va_used == cur->nargs, "C19: exactly the supplied arguments are consumed");
	}
	FRGV_CANARY();
}
#endif

/* ---- fmt(): {}-specs rendered as documented, malformed and out-of-range specs echoed unchanged (cases from gen.py: fmt_cases) */
#ifdef C19_NFCASES
void h_c19_fmt(void)
{
	for (int ci = 0; ci < C19_NFCASES; ci++) {
		const struct c19_fcase *c = &c19_fcases[ci]; outlen = 0; out_overflow = 0;
		struct sv f; f._pointer = (char *)c->fmt; f._length = c->fmtlen;
		int x = c->x; char *str = "ab"; struct frgv_vsink sink;
		struct frg_detail__fmt_impl_int_R_const_char_PR o = frg_fmt__int_R_const_char_PR(f, &x, &str);
		frg_format__frg_detail__fmt_impl_int_R_const_char_PR__frgv_vsink(&o, &sink);
		_Bool same = (outlen == c->wantlen) && !out_overflow;
		for (int i = 0; i < c->wantlen; i++) if (i < outlen && out[i] != c->want[i]) same = 0;
		__CPROVER_assert(same, "C19: fmt() renders its {}-specs as documented and echoes malformed or out-of-range specs unchanged");
	}
	FRGV_CANARY();
}
#endif

/* ---- stack_buffer_logger<Emit, 16>: all text reaches the back end complete and in order through the fixed-size chunking.
 * LOG_LEN arbitrary non-NUL characters followed by an integer, then endlog; every chunk handed to the back end is NUL-terminated and shorter
 * than the buffer; the concatenation of the chunks is the message (class B in the message length, content symbolic) */
#ifndef LOG_LEN
#define LOG_LEN 15
#endif
static char got[LOG_LEN + 40]; static int gotlen; static int chunks;
void frgv_vemit_op_call(struct frgv_vemit *this, char *msg)
{
	int n = 0;
	while (n < 16 && msg[n] != 0) n++;
	__CPROVER_assert(n < 16, "C19: every chunk handed to the logging back end is NUL-terminated within the buffer");
	for (int i = 0; i < n; i++) { if (gotlen < (int)sizeof(got)) got[gotlen] = msg[i]; gotlen++; }
	chunks++;
}
unsigned nondet_uint(void);
void h_c19_logger(void)
{
	char msg[LOG_LEN + 1];
	for (int i = 0; i < LOG_LEN; i++) { msg[i] = (char)nondet_uint(); __CPROVER_assume(msg[i] != 0); }
	msg[LOG_LEN] = 0;
	struct sbl logger; memset(&logger, 0, sizeof(logger));
	struct sbl_item it; memset(&it, 0, sizeof(it));
	sbl_op_call(&it, &logger);
	char *m = msg; int x = 12345;
	sbl_item_op_shl__const_char_PR(&it, &m);
	sbl_item_op_shl__int_R(&it, &x);
	struct frg_endlog_t e;
	sbl_item_op_shl_3(&it, e);
	sbl_item_dtor(&it);
	__CPROVER_assert(gotlen == LOG_LEN + 5, "C19: no character is lost or duplicated at a chunk boundary");
	for (int i = 0; i < LOG_LEN; i++) __CPROVER_assert(got[i] == msg[i], "C19: the text arrives in order");
	__CPROVER_assert(got[LOG_LEN] == '1' && got[LOG_LEN + 1] == '2' && got[LOG_LEN + 2] == '3' && got[LOG_LEN + 3] == '4' && got[LOG_LEN + 4] == '5', "C19: the digits of the integer follow the text");
	__CPROVER_assert(chunks == (LOG_LEN + 5) / 15 + 1 || chunks == (LOG_LEN + 5 + 14) / 15, "C19: the message is cut into chunks of at most 15 characters");
	FRGV_CANARY();
}
