import os, sys
sys.path.insert(0, os.path.dirname(os.path.abspath(__file__)))
import gen
UNIT = dict(
    name='fmt',
    roots=['fn:frgv::frgv_force'],
    first_includes=['va.h'],
    sources=[],          # harness.c is included by the generated case table (it needs the table first)
    assumptions=['oracle for ISO C: the host C library snprintf, called when the case tables are generated; %p is compared with the documented 0x<hex> form',
                 'variadic arguments: finite list model (va.h)', 'default locale (no grouping)'],
)
_cache = {}
def _tables(tier):
    if tier not in _cache:
        _cache[tier] = gen.emit_c(tier)
    return _cache[tier]
def generate(bdir, tier):
    txt, _ = _tables(tier)
    p = os.path.join(bdir, 'c19_cases.h')
    open(p, 'w').write(txt + '#include "%s"\n' % os.path.join(os.path.dirname(os.path.abspath(__file__)), 'harness.c'))
    return [p]
def obligations(tier):
    _, batches = _tables(tier)
    obs = []
    for L in (range(0, 36) if tier == 'quick' else range(0, 70)):
        obs.append(dict(id='c19.logger.len%d' % L, entry='h_c19_logger', cls='B', serves=['C19'], unwind=max(L + 8, 24), function='sbl_item_append_1', timeout=600,
                        flags=['--object-bits', '12'], defines=['C19_BATCH=0', 'LOG_LEN=%d' % L], bound='a message of %d arbitrary non-NUL characters followed by a 5-digit integer, buffer size 16' % L))
    for k, fam, n, sample in batches:
        if fam == 'fmt':
            obs.append(dict(id='c19.fmt.b%d' % k, entry='h_c19_fmt', cls='B', serves=['C19'], unwind=202, function='frg_detail__fmt_impl_int_R_const_char_PR__format_object__frgv_vsink', timeout=900,
                            flags=['--object-bits', '12'], defines=['C19_BATCH=%d' % k], bound='%d fmt() formats (first: %s) with arguments (int, "ab")' % (n, sample)))
            continue
        obs.append(dict(id='c19.%s.b%d' % (fam, k), entry='h_c19_printf', cls='B', serves=['C19'], unwind=202, function='frg_printf_format__frgv_vagent', timeout=900,
                        flags=['--object-bits', '12'], defines=['C19_BATCH=%d' % k],
                        bound='%d directives of family %s (first: %s) with concrete boundary arguments' % (n, fam, sample)))
    return obs

def native_replay(ob, rep, repo, build):
    """compile the failing batch against the REAL headers of the tree under check (g++ -fsanitize=address,undefined), run it, and report the
    cases whose output differs from the expected bytes: the counterexample replayed on the real code"""
    import subprocess, re, tempfile, shutil
    defs = dict(d.split('=', 1) for d in ob.get('defines', []) if '=' in d)
    tier = rep.get('tier', 'quick')
    d = tempfile.mkdtemp(prefix='frgv_replay_')
    try:
        txt, _ = _tables(tier)
        open(os.path.join(d, 'table.h'), 'w').write(txt)
        flags = ['-DC19_BATCH=%s' % defs.get('C19_BATCH', '0')]
        if 'LOG_LEN' in defs:
            flags = ['-DC19_BATCH=-1', '-DREPLAY_LOG_LEN=%s' % defs['LOG_LEN']]
        exe = os.path.join(d, 'replay')
        cmd = ['g++', '-std=c++20', '-O1', '-fsanitize=address,undefined', '-fno-sanitize-recover=undefined', '-w', '-I', os.path.join(repo, 'include'),
               '-DREPLAY_TABLE="%s"' % os.path.join(d, 'table.h')] + flags + [os.path.join(os.path.dirname(os.path.abspath(__file__)), 'replay_driver.cpp'), '-o', exe]
        c = subprocess.run(cmd, stdout=subprocess.PIPE, stderr=subprocess.PIPE, text=True, timeout=300)
        if c.returncode != 0:
            return {'confirmed': False, 'reason': 'native replay driver does not compile against this tree: ' + c.stderr[-400:]}
        r = subprocess.run([exe], stdout=subprocess.PIPE, stderr=subprocess.PIPE, text=True, timeout=120)
        mism = [l for l in r.stdout.splitlines() if l.startswith('MISMATCH')]
        san = [l for l in r.stderr.splitlines() if 'ERROR: AddressSanitizer' in l or 'runtime error' in l]
        return {'confirmed': bool(mism or san), 'against': os.path.join(repo, 'include'), 'command': ' '.join(cmd), 'mismatches': mism[:8], 'sanitizer': san[:4],
                'reason': '' if (mism or san) else 'the real headers produce the expected bytes for every case of this batch: the failure is not reproduced natively'}
    finally:
        shutil.rmtree(d, ignore_errors=True)
