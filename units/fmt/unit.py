UNIT = dict(
    name='fmt',
    roots=['fn:frgv::frgv_force'],
    sources=['harness.c'],
    assumptions=[],
)
def obligations(tier):
    return []
