/* fmt unit (C19): model of the variadic argument list: the arguments of the current case, in order. ASSUMED: va_arg(ap, T) reads the next
 * argument as a T (integers: low bytes of a sign-extended 64-bit slot, i.e. after the default argument promotions; pointers: the pointer). */
#ifndef FRGV_FMT_VA_H
#define FRGV_FMT_VA_H
#include <stdarg.h>
void *frgv_va_next(unsigned long size, int is_pointer);
typedef struct { unsigned gp_offset, fp_offset; void *overflow_arg_area, *reg_save_area; } frgv_va_list_t[1];
#define va_list frgv_va_list_t
#undef va_arg
#define va_arg(ap, T) (*(T *)frgv_va_next(sizeof(T), __builtin_types_compatible_p(T, void *)))
#endif
