"""Directive families for C19 and their ISO C outputs (oracle: the host C library's snprintf, called through ctypes at generation time;
the expected bytes are embedded in the generated C table and compared inside CBMC with what the lowered frigg code appends to the sink)."""
import ctypes, itertools
libc = ctypes.CDLL(None)

LENMODS = {'': ('int', 32), 'hh': ('char', 8), 'h': ('short', 16), 'l': ('long', 64), 'll': ('long long', 64), 'z': ('size_t', 64), 't': ('ptrdiff_t', 64), 'j': ('intmax_t', 64)}

def c_snprintf(fmt, args):
    """args: list of ('i', int) / ('s', bytes|None)"""
    buf = ctypes.create_string_buffer(512)
    cargs, ctypes_ = [], [ctypes.c_char_p, ctypes.c_size_t, ctypes.c_char_p]
    for kind, v in args:
        if kind == 'i':
            cargs.append(ctypes.c_longlong(v)); ctypes_.append(ctypes.c_longlong)
        elif kind == 'p':
            cargs.append(ctypes.c_void_p(v)); ctypes_.append(ctypes.c_void_p)
        else:
            cargs.append(ctypes.c_char_p(v)); ctypes_.append(ctypes.c_char_p)
    f = libc.snprintf
    f.restype = ctypes.c_int
    n = f(buf, 512, fmt.encode(), *cargs)
    assert 0 <= n < 512, (fmt, args, n)
    return buf.raw[:n]

def int_values(conv, lm):
    bits = LENMODS[lm][1]
    if conv in 'di':
        lo, hi = -(1 << (bits - 1)), (1 << (bits - 1)) - 1
        return [0, 1, -1, lo, hi, 42, -7]
    hi = (1 << bits) - 1
    return [0, 1, hi, 8, 255, 1 << (bits - 1)]

def as_arg(conv, lm, v):
    """the value as it is passed through the variadic list (default promotions: int for hh/h)"""
    bits = LENMODS[lm][1]
    if conv in 'di':
        return v        # passed as a (sign-extended) 64-bit slot
    return v & ((1 << 64) - 1) if bits == 64 else v

def families(tier):
    """yields (family id, [(fmt, args)])"""
    flagsets = [''.join(c) for r in range(0, 6) for c in itertools.combinations('-+ #0', r)]
    few_flags = ['', '-', '0', '+', '-0', '+0', ' ', '#']
    if tier == 'quick':
        widths, precs, lms = ['', '6', '*'], ['', '.0', '.3'], ['', 'hh', 'l']
        few_flags = ['', '-', '0', '+', '#']
    else:
        widths, precs, lms = ['', '6', '70', '*'], ['', '.', '.0', '.5', '.*'], ['', 'hh', 'h', 'l', 'll', 'z', 'j']
        few_flags = ['', '-', '0', '+', '#', '-0', ' ']
    for conv in 'diuoxX':
        for lm in lms:
            cases = []
            for fl in (flagsets if lm == '' else few_flags):
                if '#' in fl and conv in 'diu':      # undefined in ISO C
                    continue
                for w in (widths if lm == '' else ['', '6']):
                    for p in (precs if lm == '' else (['', '.3'] if tier == 'quick' else ['', '.0', '.5'])):
                        if tier == 'quick' and w == '*' and p == '.0':
                            continue
                        vals = int_values(conv, lm)
                        if tier == 'quick':
                            vals = vals[:2] + (vals[2:5] if (w == '6' and p == '') else [])
                        elif w in ('70',) or lm != '':
                            vals = vals[:3] + (vals[3:5] if (w == '6' and p == '') else [])
                        else:
                            vals = vals[:5]
                        for v in vals:
                            fmt = '%' + fl + w + p + lm + conv
                            args = []
                            if w == '*': args.append(('i', 9))
                            if p == '.*': args.append(('i', 3))
                            args.append(('i', v))
                            cases.append((fmt, args))
            yield ('int_%s_%s' % (conv, lm or 'none'), cases)
    # characters, strings, percent, pointer, positional arguments, negative * arguments, literal text around directives
    cases = []
    for fl in ('', '-'):
        for w in ('', '1', '5', '*'):
            a = [('i', 7)] if w == '*' else []
            cases.append(('%' + fl + w + 'c', a + [('i', ord('x'))]))
            for p in ('', '.0', '.2', '.9', '.*'):
                for s in (b'hello', b'', None):
                    b = list(a) + ([('i', 3)] if p == '.*' else [])
                    if s is None and p not in ('', '.9'):
                        continue     # the text printed for a null string is a glibc extension; compare only where all of it is printed
                    cases.append(('%' + fl + w + p + 's', b + [('s', s)]))
    cases += [('%%', []), ('a%%b%dc', [('i', 5)]), ('x=%d, y=%s!', [('i', -3), ('s', b'yz')]), ('%2$d %1$d', [('i', 1), ('i', 2)]), ('%1$d %1$d', [('i', 4)]),
              ('%2$s|%1$5d|', [('i', 42), ('s', b'ab')]), ('%2$d %1$d %2$d', [('i', 1), ('i', 2)]), ('%3$d %1$d %3$d %2$d', [('i', 1), ('i', 2), ('i', 3)]), ('%*d', [('i', -6), ('i', 42)]), ('%.*d|', [('i', 0), ('i', 0)]), ('%5.*d|', [('i', 0), ('i', 0)]), ('%.*s|', [('i', 0), ('s', b'hello')]), ('%0*.*d|', [('i', 6), ('i', 0), ('i', 7)]), ('%.*x|', [('i', 1), ('i', 255)]), ('%.*d', [('i', -1), ('i', 42)]), ('%-*d|', [('i', 6), ('i', 42)]),
              ('%p', [('p', 0x1234)]), ('%p', [('p', 0xffffffffffffffff)]), ("%'d", [('i', 1234567)]), ("%'8d", [('i', 12)])]
    yield ('chars_strings_misc', [c for c in cases if '$' not in c[0]])
    # positional arguments go through the union arg_list (byte-level reasoning in CBMC: tens of seconds per directive): one case per run
    yield ('positional', [c for c in cases if '$' in c[0]])

def expected(fmt, args):
    if fmt.endswith('p') and fmt.startswith('%p'):
        # frigg's documented form: 0x<hex> (ISO C leaves %p implementation-defined)
        return b'0x%x' % args[0][1]
    if any(k == 's' and v is None for k, v in args):
        return c_snprintf(fmt.replace('s', 's'), [(k, (b'(null)' if (k == 's' and v is None) else v)) for k, v in args])
    return c_snprintf(fmt, args)

def emit_c(tier, batch_size=12):
    if tier == 'thorough':
        batch_size = 16
    """returns (C text with one table per batch under #if C19_BATCH == k, list of (batch index, family, n cases, sample))"""
    out = ['/* generated by units/fmt/gen.py: directive families and the bytes ISO C (host libc snprintf) prescribes for them */',
           'struct c19_arg { int kind; long long i; const char *s; };',
           'struct c19_case { const char *fmt; int nargs; struct c19_arg args[3]; const char *want; int wantlen; };']
    batches = []
    k = 0
    for fam, cases in families(tier):
        bs = 1 if fam == 'positional' else batch_size
        for b in range(0, len(cases), bs):
            chunk = cases[b:b + bs]
            out.append('#if C19_BATCH == %d' % k)
            out.append('static const struct c19_case c19_cases[] = {')
            for fmt, args in chunk:
                want = expected(fmt, args)
                a = []
                for kind, v in args:
                    if kind == 'i': a.append('{0, %dLL, 0}' % (v if v < (1 << 63) else v - (1 << 64)))
                    elif kind == 'p': a.append('{2, %dLL, 0}' % (v if v < (1 << 63) else v - (1 << 64)))
                    else: a.append('{1, 0, %s}' % ('0' if v is None else cstr(v)))
                out.append('  {%s, %d, {%s}, %s, %d},' % (cstr(fmt.encode()), len(args), ', '.join(a) or '{0,0,0}', cstr(want), len(want)))
            out.append('};')
            out.append('#define C19_NCASES %d' % len(chunk))
            out.append('#endif')
            batches.append((k, fam, len(chunk), chunk[0][0]))
            k += 1
    # fmt(): one more table per batch index, after the printf batches
    out.append('struct c19_fcase { const char *fmt; int fmtlen; int x; const char *want; int wantlen; };')
    fc = fmt_cases(tier)
    for b in range(0, len(fc), 16):
        chunk = fc[b:b + 16]
        out.append('#if C19_BATCH == %d' % k)
        out.append('static const struct c19_fcase c19_fcases[] = {')
        for f, x, want in chunk:
            out.append('  {%s, %d, %s, %s, %d},' % (cstr(f.encode()), len(f), ('%d' % x) if x > -2147483648 else '(-2147483647 - 1)', cstr(want.encode()), len(want)))
        out.append('};')
        out.append('#define C19_NFCASES %d' % len(chunk))
        out.append('#endif')
        batches.append((k, 'fmt', len(chunk), chunk[0][0]))
        k += 1
    return '\n'.join(out) + '\n', batches

def fmt_render(x, zero, width, conv):
    """the documented rendering of an integer argument under a {}-spec: sign, digits in the radix of the conversion, padded to the width
    with spaces on the left or, with the zero fill, with zeros between sign and digits"""
    base = {'b': 2, 'o': 8, 'd': 10, 'i': 10, 'x': 16, 'X': 16, '': 10}[conv]
    n = abs(x); ds = ''
    while True:
        ds = '0123456789abcdef'[n % base] + ds; n //= base
        if not n: break
    if conv == 'X': ds = ds.upper()
    sign = '-' if x < 0 else ''
    pad = max(0, width - len(sign) - len(ds))
    return (sign + '0' * pad + ds) if zero else (' ' * pad + sign + ds)

def fmt_cases(tier):
    """(format, x, expected) for fmt(format, x, "ab")"""
    out = []
    xs = [0, 42, -7, 2147483647, -2147483648] if tier == 'thorough' else [0, 42, -7]
    for x in xs:
        for conv in ['', 'd', 'i', 'x', 'X', 'o', 'b']:
            for zero in ('', '0'):
                for w in ('', '1', '6', '12'):
                    if tier == 'quick' and (w == '1' or (conv in 'io' and w == '12')):
                        continue
                    spec = ':' + zero + w + conv
                    for pos in ('', '0'):
                        f = 'v=' + '{' + pos + (spec if spec != ':' else '') + '}' + ';'
                        out.append((f, x, 'v=' + fmt_render(x, zero == '0', int(w or 0), conv) + ';'))
        # positions, the string argument, literal text, the brace escape
        d = fmt_render(x, False, 0, '')
        out += [('{}{}', x, d + 'ab'), ('{1}{0}', x, 'ab' + d), ('{0}{0}', x, d + d), ('{} and {}!', x, d + ' and ab!'), ('{1:8}|', x, 'ab|'),
                # options of one spec must not leak into the next one
                ('{0:x}|{0}', x, fmt_render(x, False, 0, 'x') + '|' + d), ('{0:08}|{0}|{0:3}', x, fmt_render(x, True, 8, '') + '|' + d + '|' + fmt_render(x, False, 3, '')),
                ('{0:X}|{0:x}|{0:o}|{0}', x, fmt_render(x, False, 0, 'X') + '|' + fmt_render(x, False, 0, 'x') + '|' + fmt_render(x, False, 0, 'o') + '|' + d),
                ('{{}', x, '{}'), ('a{{b', x, 'a{b'), ('', x, ''), ('no specs', x, 'no specs'),
                # malformed or out-of-range specs are echoed unchanged
                ('{2}', x, '{2}'), ('x{7}y{}', x, 'x{7}y' + 'ab'), ('{:q}', x, '{:q}'), ('{a}', x, '{a}'), ('{0:5d5}', x, '{0:5d5}'), ('{0', x, '{0'), ('tail {', x, 'tail {'),
                ('{:99999999999}', x, '{:99999999999}'), ('{0:x', x, '{0:x')]
    return out

def cstr(b):
    return '"' + ''.join(('\\%03o' % c) if (c < 32 or c > 126 or c in (34, 92, 63)) else chr(c) for c in b) + '"'

if __name__ == '__main__':
    import sys
    txt, batches = emit_c(sys.argv[1] if len(sys.argv) > 1 else 'quick')
    print(len(batches), 'batches', sum(b[2] for b in batches), 'cases')
    print(expected('%+08.3d', [('i', 5)]), expected('%#o', [('i', 8)]), expected('%5s', [('s', None)]))
