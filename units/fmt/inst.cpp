// Instantiation TU: printf / fmt formatting and the chunking logger (C19, C20).
#include <frg/printf.hpp>
#include <frg/formatting.hpp>
#include <frg/logging.hpp>

namespace frgv {
// Sink: a bounded character buffer (contract in harness: appends in order)
struct vsink {
	void append(char c);
	void append(const char *s);
};
// printf agent as a user would write it (tests/tests.cpp has the same shape); bodies are harness stubs
struct vagent {
	frg::expected<frg::format_error> operator() (char c);
	frg::expected<frg::format_error> operator() (const char *c, size_t n);
	frg::expected<frg::format_error> operator() (char t, frg::format_options opts, frg::printf_size_mod szmod);
	vsink *sink_;
	frg::va_struct *vsp_;
};
// logger back end: receives NUL-terminated chunks
struct vemit {
	void operator() (const char *msg);
};
using A_fo = frg::format_options;
using A_lo = frg::locale_options;
using A_vas = frg::va_struct;
using A_res = frg::expected<frg::format_error>;
using A_optint = frg::optional<int>;
using A_sv = frg::basic_string_view<char>;
using A_sbl = frg::stack_buffer_logger<vemit, 16>;
using A_sbl_item = A_sbl::item;
using A_fmt1 = frg::detail_::fmt_impl<int>;
using A_fmt2 = frg::detail_::fmt_impl<int, const char *>;
using A_fmt0 = frg::detail_::fmt_impl<>;

void frgv_force(vsink &s, vagent a, const char *f, frg::va_struct *vsp, frg::format_options fo,
		frg::printf_size_mod szmod, A_sbl &l, int x, const char *str) {
	(void)frg::printf_format(a, f, vsp);
	frg::do_printf_chars(s, 'c', fo, szmod, vsp);
	frg::do_printf_ints(s, 'd', fo, szmod, vsp);
	frg::format(frg::fmt(A_sv{f}, x), s);
	frg::format(frg::fmt(A_sv{f}, x, str), s);
	frg::format(frg::fmt(A_sv{f}), s);
	frg::format(x, s);
	frg::format((unsigned int)x, fo, s);
	frg::format((long)x, fo, s);
	frg::format((unsigned long)x, fo, s);
	frg::format((char)x, fo, s);
	frg::format(str, s);
	frg::format((const void *)str, s);
	l() << str << x << frg::endlog;
}
}
template struct frg::stack_buffer_logger<frgv::vemit, 16>;
