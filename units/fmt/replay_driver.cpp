// Native replay of a C19 case table against the real headers (compiled by units/fmt/unit.py: native_replay).
#include <cstdio>
#include <cstring>
#include <cstdarg>
#include <string>
#include <csetjmp>
#include <frg/printf.hpp>
#include <frg/formatting.hpp>
#include <frg/logging.hpp>
#include REPLAY_TABLE
static jmp_buf jb; static const char *panic_msg;
extern "C" void frg_panic(const char *m) { panic_msg = m; longjmp(jb, 1); }
extern "C" void frg_log(const char *) {}
struct sink_t { std::string s; void append(char c) { s.push_back(c); } void append(const char *p) { s += p; } };
struct agent_t {
	frg::expected<frg::format_error> operator() (char c) { sink_->append(c); return frg::success; }
	frg::expected<frg::format_error> operator() (const char *c, size_t n) { sink_->s.append(c, n); return frg::success; }
	frg::expected<frg::format_error> operator() (char t, frg::format_options opts, frg::printf_size_mod szmod) {
		switch(t) { case 'c': case 'p': case 's': frg::do_printf_chars(*sink_, t, opts, szmod, vsp_); break;
		default: frg::do_printf_ints(*sink_, t, opts, szmod, vsp_); }
		return frg::success;
	}
	sink_t *sink_; frg::va_struct *vsp_;
};
static void run(sink_t &s, const char *fmt, ...) {
	frg::va_struct vs; frg::arg al[16]; vs.arg_list = al; va_start(vs.args, fmt);
	agent_t a{&s, &vs}; (void)frg::printf_format(a, fmt, &vs); va_end(vs.args);
}
int main() {
	int bad = 0;
#ifdef C19_NCASES
	for (int i = 0; i < C19_NCASES; i++) {
		const c19_case &c = c19_cases[i]; sink_t s; panic_msg = nullptr;
		long long a[3] = {0,0,0};
		for (int k = 0; k < c.nargs; k++) a[k] = c.args[k].kind == 1 ? (long long)c.args[k].s : c.args[k].i;
		if (!setjmp(jb)) {
			if (c.nargs == 0) run(s, c.fmt); else if (c.nargs == 1) run(s, c.fmt, a[0]); else if (c.nargs == 2) run(s, c.fmt, a[0], a[1]); else run(s, c.fmt, a[0], a[1], a[2]);
		}
		std::string want(c.want, c.wantlen);
		if (panic_msg || s.s != want) { bad++; printf("MISMATCH printf(\"%s\", %lld, %lld): ISO C gives [%s], frigg gives [%s]%s\n", c.fmt, a[0], a[1], want.c_str(), s.s.c_str(), panic_msg ? " and stops in an assertion" : ""); }
	}
#endif
#ifdef C19_NFCASES
	for (int i = 0; i < C19_NFCASES; i++) {
		const c19_fcase &c = c19_fcases[i]; sink_t s; panic_msg = nullptr;
		int x = c.x; const char *str = "ab";
		if (!setjmp(jb)) frg::format(frg::fmt(frg::string_view{c.fmt, (size_t)c.fmtlen}, x, str), s);
		std::string want(c.want, c.wantlen);
		if (panic_msg || s.s != want) { bad++; printf("MISMATCH fmt(\"%s\", %d, \"ab\"): documented [%s], frigg gives [%s]%s\n", c.fmt, x, want.c_str(), s.s.c_str(), panic_msg ? " and stops in an assertion" : ""); }
	}
#endif
#ifdef REPLAY_LOG_LEN
	{
		static std::string got; struct emit { void operator() (const char *m) { got += m; } };
		frg::stack_buffer_logger<emit, 16> logger; std::string msg;
		for (int i = 0; i < REPLAY_LOG_LEN; i++) msg.push_back('a' + i % 26);
		if (!setjmp(jb)) logger() << msg.c_str() << 12345 << frg::endlog;
		if (panic_msg || got != msg + "12345") { bad++; printf("MISMATCH logger: message [%s12345] arrives as [%s]\n", msg.c_str(), got.c_str()); }
	}
#endif
	printf("%d mismatching cases\n", bad);
	return bad ? 1 : 0;
}
