/* Contracts for vector<tracked>, small_vector<tracked,4>, dyn_array<tracked>, stack<tracked> (C13, C16).
 * rep_ok: size <= capacity; the element array is a block of exactly capacity * sizeof(T) bytes; slots below size hold
 * live objects (self-consistent), slots at or above size hold none.  The abstract sequence is (elements[i].v | i < size). */
#define VEC_FRESH(v) __CPROVER_is_fresh(v, sizeof(struct vec))
#define VEC_OK(v) ((v)->_size <= (v)->_capacity && (v)->_capacity <= CAPM && \
	((v)->_capacity == 0 ? (v)->_elements == NULL : __CPROVER_is_fresh((v)->_elements, (v)->_capacity * T_SZ)) && \
	SLOTS_OK((v)->_elements, (v)->_size, (v)->_capacity))
/* post-state: capacity may have doubled */
#define VEC_OK_POST(v) ((v)->_size <= (v)->_capacity && (v)->_capacity <= 2 * CAPM + 2 && \
	((v)->_capacity == 0 || __CPROVER_OBJECT_SIZE((v)->_elements) == (v)->_capacity * T_SZ) && \
	SLOTS_OK((v)->_elements, (v)->_size, (v)->_capacity))
#define OBJ_LIVE(p) (__CPROVER_is_fresh(p, T_SZ) && (p)->live == 1 && (p)->self == (p))
#define OLD(e) __CPROVER_old(e)

void vec_ctor_contract(struct vec *this, struct frgv_valloc allocator)
__CPROVER_requires(VEC_FRESH(this)) __CPROVER_assigns(__CPROVER_object_whole(this))
__CPROVER_ensures(this->_size == 0 && this->_capacity == 0 && this->_elements == NULL);









#define VEC_GETTER(fn, expr) struct frgv_tracked *fn##_contract(struct vec *this) \
__CPROVER_requires(VEC_FRESH(this) && VEC_OK(this) && this->_size > 0) __CPROVER_assigns() __CPROVER_ensures(__CPROVER_return_value == (expr));
VEC_GETTER(vec_front_0, &this->_elements[0]) VEC_GETTER(vec_front_1, &this->_elements[0])
VEC_GETTER(vec_back_0, &this->_elements[this->_size - 1]) VEC_GETTER(vec_back_1, &this->_elements[this->_size - 1])
VEC_GETTER(vec_begin_0, this->_elements) VEC_GETTER(vec_begin_1, this->_elements)
VEC_GETTER(vec_end_0, this->_elements + this->_size) VEC_GETTER(vec_end_1, this->_elements + this->_size)
VEC_GETTER(vec_data_0, this->_elements) VEC_GETTER(vec_data_1, this->_elements)
struct frgv_tracked *vec_op_index_0_contract(struct vec *this, unsigned long index)
__CPROVER_requires(VEC_FRESH(this) && VEC_OK(this) && index < this->_size) __CPROVER_assigns() __CPROVER_ensures(__CPROVER_return_value == &this->_elements[index]);
struct frgv_tracked *vec_op_index_1_contract(struct vec *this, unsigned long index)
__CPROVER_requires(VEC_FRESH(this) && VEC_OK(this) && index < this->_size) __CPROVER_assigns() __CPROVER_ensures(__CPROVER_return_value == &this->_elements[index]);
size_t vec_size_contract(struct vec *this)
__CPROVER_requires(VEC_FRESH(this) && VEC_OK(this)) __CPROVER_assigns() __CPROVER_ensures(__CPROVER_return_value == this->_size);
_Bool vec_empty_contract(struct vec *this)
__CPROVER_requires(VEC_FRESH(this) && VEC_OK(this)) __CPROVER_assigns() __CPROVER_ensures(__CPROVER_return_value == (this->_size == 0));

/* swap / move: views are exchanged, no element is touched */
void frg_vector_frgv_tracked_frgv_valloc__swap_contract(struct vec *a, struct vec *b)
__CPROVER_requires(VEC_FRESH(a) && VEC_FRESH(b))
__CPROVER_assigns(__CPROVER_object_whole(a), __CPROVER_object_whole(b))
__CPROVER_ensures(a->_elements == OLD(b->_elements) && a->_size == OLD(b->_size) && a->_capacity == OLD(b->_capacity))
__CPROVER_ensures(b->_elements == OLD(a->_elements) && b->_size == OLD(a->_size) && b->_capacity == OLD(a->_capacity));
void vec_ctor_move_contract(struct vec *this, struct vec *other)
__CPROVER_requires(VEC_FRESH(this) && VEC_FRESH(other) && VEC_OK(other))
__CPROVER_assigns(__CPROVER_object_whole(this), __CPROVER_object_whole(other))
__CPROVER_ensures(this->_elements == OLD(other->_elements) && this->_size == OLD(other->_size) && this->_capacity == OLD(other->_capacity))
__CPROVER_ensures(other->_elements == NULL && other->_size == 0 && other->_capacity == 0);


