#define FRGV_LIVE_COUNT
/* Harness support for the seq unit. */
unsigned frgv_assert_hook_hits;
#define FRGV_CANARY() __CPROVER_assert(0, "canary: end of harness reachable")
size_t nondet_size_t(void);
#define FRGV_MAX_ALLOC 4096
#include "tracked_stubs.c"

/* ---------------------------------------------------------------------------------------------
 * Operation-sequence harnesses (class B): NOPS nondeterministic operations with symbolic values from the empty
 * container, compared after every step with a reference sequence; at the end the owner is destroyed and nothing
 * it created may remain alive or allocated. */
#ifndef NOPS
#define NOPS 5
#endif
#define REFMAX 12
int nondet_int(void);
static struct frgv_valloc frgv_a;
static int ref[REFMAX]; static size_t rn;
#ifndef SEQ_OPS
#define SEQ_OPS {0, 0, 0, 0, 0, 0, 0, 0}
#endif
static const int frgv_ops[] = SEQ_OPS;     /* the operation sequence of this run (enumerated by unit.py) */

static void mk_obj(struct frgv_tracked *t, int v) { memset(t, 0, sizeof(*t)); frgv_tracked_ctor(t, v); }

#define CHECK_SEQ(SIZE_EXPR, ELEM_PTR, CAP_EXPR, what) do { \
	__CPROVER_assert((SIZE_EXPR) == rn, what ": size equals the reference"); \
	for (size_t q = 0; q < REFMAX; q++) { \
		if (q < rn) __CPROVER_assert((ELEM_PTR)[q].v == ref[q] && (ELEM_PTR)[q].live == 1 && (ELEM_PTR)[q].self == &(ELEM_PTR)[q], what ": element equals the reference and is a live object"); \
		else if (q < (CAP_EXPR)) __CPROVER_assert(!(ELEM_PTR)[q].live, what ": no object beyond size()"); \
	} } while(0)

void h_vec_ops(void)
{
	struct vec v; memset(&v, 0, sizeof(v)); vec_ctor(&v, frgv_a); rn = 0;
	for (int step = 0; step < NOPS; step++) {
		int op = frgv_ops[step]; int val = nondet_int();
		if (op == 0 && rn < REFMAX) { struct frgv_tracked t; mk_obj(&t, val); struct frgv_tracked *r = vec_push_0(&v, &t);
			__CPROVER_assert(r == &v._elements[rn] && t.live && t.v == val, "push(const T&) returns the new element, source intact"); frgv_tracked_dtor(&t); ref[rn++] = val; }
		else if (op == 1 && rn < REFMAX) { struct frgv_tracked t; mk_obj(&t, val); vec_push_back_1(&v, &t); frgv_tracked_dtor(&t); ref[rn++] = val; }
		else if (op == 2 && rn > 0) { struct frgv_tracked out; memset(&out, 0, sizeof(out)); vec_pop(&out, &v);
			__CPROVER_assert(out.live == 1 && out.v == ref[rn - 1], "pop returns the last element"); frgv_tracked_dtor(&out); rn--; }
		else if ((op == 3 && rn + 2 <= REFMAX) || op == 5) { size_t ns = (op == 3) ? rn + 2 : rn / 2; vec_resize_0(&v, ns);     /* grow by 2 / shrink to half */
			for (size_t q = rn; q < ns; q++) ref[q] = 0; rn = ns; }
		else if (op == 4) { vec_clear(&v); rn = 0; }
		else if (op == 6 && 2 * v._capacity + 1 <= REFMAX) { size_t ns = 2 * v._capacity + 1; vec_resize_0(&v, ns);          /* grow past twice the capacity in one step */
			for (size_t q = rn; q < ns; q++) ref[q] = 0; if (ns > rn) rn = ns; else rn = ns; }
		CHECK_SEQ(vec_size(&v), v._elements, v._capacity, "vector");
	}
	FRGV_CANARY();
	/* epilogue on the reached state: copy, move, assign, accessors */
	int val = nondet_int();
	struct vec c; memset(&c, 0, sizeof(c)); vec_ctor_copy(&c, &v);
	__CPROVER_assert(vec_op_eq(&c, &v) && vec_size(&c) == rn && (rn == 0 || c._elements != v._elements), "copy is equal and independent");
	if (rn > 0) { size_t ix = nondet_size_t(); __CPROVER_assume(ix < rn);
		__CPROVER_assert(vec_front_0(&c)->v == ref[0] && vec_back_0(&c)->v == ref[rn - 1] && vec_op_index_1(&c, ix)->v == ref[ix] &&
		                 vec_begin_0(&c) + rn == vec_end_0(&c) && !vec_empty(&c), "front/back/index/iteration bounds of the copy"); }
	struct vec m; memset(&m, 0, sizeof(m)); vec_ctor_move(&m, &c);
	__CPROVER_assert(vec_size(&c) == 0 && vec_size(&m) == rn, "move leaves the source empty");
	vec_emplace_back__int_R(&c, &val);
	struct vec tmp; memset(&tmp, 0, sizeof(tmp)); vec_ctor_copy(&tmp, &c); vec_assign(&m, &tmp); vec_dtor(&tmp);      /* m = c */
	__CPROVER_assert(vec_size(&m) == 1 && m._elements[0].v == val && m._elements[0].live == 1, "assignment replaces the content");
	vec_dtor(&m); vec_dtor(&c);
	vec_dtor(&v);
	FRGV_NONE_LIVE();
}

#define SV_CONT(s) ((s)->_capacity <= 4 ? (struct frgv_tracked *)(s)->_array._stor[0].buffer : (s)->_elements)
void h_svec_ops(void)
{
	struct svec v; memset(&v, 0, sizeof(v)); svec_ctor(&v, frgv_a); rn = 0;
	for (int step = 0; step < NOPS; step++) {
		int op = nondet_int(); int val = nondet_int();
		op = frgv_ops[step];
		if (op == 0 && rn < REFMAX) { struct frgv_tracked t; mk_obj(&t, val); svec_push_back_0(&v, &t); frgv_tracked_dtor(&t); ref[rn++] = val; }
		else if (op == 1 && rn < REFMAX) { svec_emplace_back__int_R(&v, &val); ref[rn++] = val; }
		else if (op == 2 && rn > 0) { svec_pop_back(&v); rn--; }
		else if ((op == 3 && rn + 3 <= REFMAX) || op == 4) { size_t ns = (op == 3) ? rn + 3 : rn / 2; svec_resize(&v, ns); for (size_t q = rn; q < ns; q++) ref[q] = 0; rn = ns; }
		else if (op == 5 && 2 * v._capacity + 1 <= REFMAX) { size_t ns = 2 * v._capacity + 1; svec_resize(&v, ns);          /* grow past twice the capacity in one step */
			for (size_t q = rn; q < ns; q++) ref[q] = 0; rn = ns; }
		if (rn > 0) { size_t ix = nondet_size_t(); __CPROVER_assume(ix < rn);
			__CPROVER_assert(svec_op_index_0(&v, ix)->v == ref[ix] && svec_front_0(&v)->v == ref[0] && svec_back_0(&v)->v == ref[rn - 1] &&
			                 svec_begin_0(&v) + rn == svec_end_0(&v) && !svec_empty(&v), "small_vector accessors"); }
		__CPROVER_assert((v._capacity <= 4) == (SV_CONT(&v) != v._elements || v._elements == (void *)0) , "inline storage iff capacity <= N");
		CHECK_SEQ(svec_size(&v), SV_CONT(&v), v._capacity, "small_vector");
	}
	FRGV_CANARY();
	/* epilogue on the reached state: copy (element-wise) and move (swap of the representations) */
	struct svec c; memset(&c, 0, sizeof(c)); svec_ctor_copy(&c, &v);
	__CPROVER_assert(svec_size(&c) == rn, "small_vector copy has the same size");
	for (size_t q = 0; q < REFMAX; q++) if (q < rn) __CPROVER_assert(SV_CONT(&c)[q].live == 1 && SV_CONT(&c)[q].self == &SV_CONT(&c)[q] && SV_CONT(&c)[q].v == ref[q], "small_vector copy holds equal, properly constructed elements");
#ifndef SVEC_MOVE_INLINE
	/* moving a small_vector whose elements live in the inline storage relocates them bytewise (known finding svec-move-relocates-inline): the
	 * deciding runs move only representations that own a heap block or hold no element */
	if (c._capacity > 4 || rn == 0)
#endif
	{
		struct svec m; memset(&m, 0, sizeof(m)); svec_ctor_move(&m, &c);
		__CPROVER_assert(svec_size(&m) == rn && svec_size(&c) == 0, "small_vector move transfers the elements and leaves the source empty");
		for (size_t q = 0; q < REFMAX; q++) if (q < rn) __CPROVER_assert(SV_CONT(&m)[q].live == 1 && SV_CONT(&m)[q].self == &SV_CONT(&m)[q] && SV_CONT(&m)[q].v == ref[q],
			"lifetime: small_vector move holds the same elements, none of them relocated bytewise (an element's address changes only through its move constructor)");
		svec_dtor(&m);
	}
	svec_dtor(&c);
	svec_dtor(&v);
	FRGV_NONE_LIVE();
}

void h_dyn_ops(void)
{
	size_t n = nondet_size_t(); __CPROVER_assume(n <= 4);
	struct dyn d; memset(&d, 0, sizeof(d)); dyn_ctor_1(&d, n, frgv_a);
	__CPROVER_assert(dyn_size(&d) == n && dyn_empty(&d) == (n == 0), "dyn_array(n): size and emptiness");
	for (size_t q = 0; q < 4; q++) if (q < n) { __CPROVER_assert(d.elements_[q].live == 1 && d.elements_[q].v == 0, "dyn_array(n) value-initialises"); d.elements_[q].v = (int)q + 7; }
	struct dyn c; memset(&c, 0, sizeof(c)); dyn_ctor_copy(&c, &d);
	size_t ix = nondet_size_t(); __CPROVER_assume(ix < n);
	__CPROVER_assert(dyn_size(&c) == n && (n == 0 || (dyn_op_index_1(&c, ix)->v == (int)ix + 7 && c.elements_ != d.elements_)), "copy equal and independent");
	struct dyn m; memset(&m, 0, sizeof(m)); dyn_ctor_move(&m, &c);
	__CPROVER_assert(dyn_size(&m) == n && dyn_size(&c) == 0 && dyn_begin_0(&m) + n == dyn_end_0(&m), "move transfers the elements");
	struct dyn tmp; memset(&tmp, 0, sizeof(tmp)); dyn_ctor_copy(&tmp, &d); dyn_assign(&m, &tmp); dyn_dtor(&tmp);
	__CPROVER_assert(dyn_size(&m) == n && (n == 0 || m.elements_[ix].v == (int)ix + 7), "assignment copies");
	FRGV_CANARY();
	dyn_dtor(&m); dyn_dtor(&c); dyn_dtor(&d);
	FRGV_NONE_LIVE();
}

void h_stk_ops(void)
{
	struct stk s; memset(&s, 0, sizeof(s)); stk_ctor(&s, frgv_a); rn = 0;
	for (int step = 0; step < NOPS; step++) {
		int op = nondet_int(); int val = nondet_int();
		op = frgv_ops[step];
		if (op == 0 && rn < REFMAX) { struct frgv_tracked t; mk_obj(&t, val); stk_push(&s, &t); frgv_tracked_dtor(&t); ref[rn++] = val; }
		else if (op == 1 && rn < REFMAX) { stk_emplace__int_R(&s, &val); ref[rn++] = val; }
		else if (op == 2 && rn > 0) { __CPROVER_assert(stk_top(&s)->v == ref[rn - 1], "top is the last pushed"); stk_pop(&s); rn--; }
		__CPROVER_assert(stk_size(&s) == rn && stk_empty(&s) == (rn == 0), "stack size/emptiness");
	}
	FRGV_CANARY();
	vec_dtor(&s._container);
	FRGV_NONE_LIVE();
}

/* ---- intrusive_list and list: enumerated operation sequences over 5 nodes (class B) */
#define LN 6
static struct frgv_lnode LNODE[LN]; static int lref[LN]; static size_t lrn; static size_t lnext;
static void ilist_check(struct ilist *l, const char *what)
{
	__CPROVER_assert(ilist_empty(l) == (lrn == 0), "intrusive_list: empty() iff no elements");
	__CPROVER_assert(lrn == 0 ? (ilist_front(l) == 0 && ilist_back(l) == 0) : (ilist_front(l) == &LNODE[lref[0]] && ilist_back(l) == &LNODE[lref[lrn - 1]]), "intrusive_list: front/back");
	struct ilist_it it = ilist_begin(l), e = ilist_end(l);
	for (size_t q = 0; q < LN; q++) {
		if (q < lrn) { __CPROVER_assert(ilist_it_op_ne(&it, &e) && ilist_it_op_star(&it) == &LNODE[lref[q]], "intrusive_list: forward iteration equals the reference"); ilist_it_op_inc_0(&it); }
	}
	__CPROVER_assert(ilist_it_op_eq(&it, &e), "intrusive_list: iteration ends after size() elements");
	struct frgv_lnode *b = ilist_back(l);
	for (size_t q = 0; q < LN; q++) if (q < lrn) { __CPROVER_assert(b == &LNODE[lref[lrn - 1 - q]], "intrusive_list: backward walk over previous links equals the reversed reference"); b = b->hook.previous; }
	__CPROVER_assert(b == 0, "intrusive_list: backward walk ends at the front");
	for (size_t n = 0; n < LN; n++) { _Bool in = 0; for (size_t q = 0; q < LN; q++) if (q < lrn && lref[q] == (int)n) in = 1;
		__CPROVER_assert(LNODE[n].hook.in_list == in && (in || (LNODE[n].hook.next == 0 && LNODE[n].hook.previous == 0)), "intrusive_list: in_list flag and reset hooks"); }
}
void h_ilist_ops(void)
{
	struct ilist l; ilist_ctor_default(&l); lrn = 0; lnext = 0;
	for (size_t n = 0; n < LN; n++) { LNODE[n].v = nondet_int(); LNODE[n].hook.next = 0; LNODE[n].hook.previous = 0; LNODE[n].hook.in_list = 0; }
	for (int step = 0; step < NOPS; step++) {
		int op = frgv_ops[step];
		if (op == 0 && lnext < LN) { struct ilist_it r = ilist_push_back(&l, &LNODE[lnext]); __CPROVER_assert(r._current == &LNODE[lnext], "push_back returns an iterator to the element"); lref[lrn++] = (int)lnext++; }
		else if (op == 1 && lnext < LN) { ilist_push_front(&l, &LNODE[lnext]); for (size_t q = lrn; q > 0; q--) lref[q] = lref[q - 1]; lref[0] = (int)lnext++; lrn++; }
		else if (op == 2 && lrn > 0) { struct frgv_lnode *r = ilist_pop_front(&l); __CPROVER_assert(r == &LNODE[lref[0]], "pop_front returns the first element"); for (size_t q = 1; q < lrn; q++) lref[q - 1] = lref[q]; lrn--; }
		else if (op == 3 && lrn > 0) { struct frgv_lnode *r = ilist_pop_back(&l); __CPROVER_assert(r == &LNODE[lref[lrn - 1]], "pop_back returns the last element"); lrn--; }
		else if (op == 4 && lrn >= 2) { struct ilist_it it = ilist_iterator_to(&l, &LNODE[lref[1]]); struct frgv_lnode *r = ilist_erase(&l, it);
			__CPROVER_assert(r == &LNODE[lref[1]], "erase returns the erased element"); for (size_t q = 2; q < lrn; q++) lref[q - 1] = lref[q]; lrn--; }
		else if (op == 5 && lnext < LN) { /* insert before the second element (or at the end) */
			size_t pos = lrn >= 2 ? 1 : lrn; struct ilist_it bef; ilist_it_ctor(&bef, pos < lrn ? &LNODE[lref[pos]] : 0);
			ilist_insert(&l, bef, &LNODE[lnext]); for (size_t q = lrn; q > pos; q--) lref[q] = lref[q - 1]; lref[pos] = (int)lnext++; lrn++; }
		else if (op == 6 && lnext + 1 < LN) { /* splice a two-element list at the end */
			struct ilist o; ilist_ctor_default(&o); ilist_push_back(&o, &LNODE[lnext]); ilist_push_back(&o, &LNODE[lnext + 1]);
			ilist_splice(&l, ilist_end(&l), &o); __CPROVER_assert(ilist_empty(&o), "splice empties the source"); lref[lrn++] = (int)lnext++; lref[lrn++] = (int)lnext++; }
		ilist_check(&l, "");
	}
	FRGV_CANARY();
	ilist_clear(&l); lrn = 0; ilist_check(&l, "");
}
void h_list_ops(void)
{
	struct list l; memset(&l, 0, sizeof(l)); list_ctor(&l, frgv_a); rn = 0;
	for (int step = 0; step < NOPS; step++) {
		int op = frgv_ops[step]; int val = nondet_int();
		if (op == 0 && rn < REFMAX) { list_emplace_back__int_R(&l, &val); ref[rn++] = val; }
		else if (op == 1 && rn < REFMAX) { struct frgv_tracked t; mk_obj(&t, val); list_emplace_back__const_frgv_tracked_R(&l, &t); frgv_tracked_dtor(&t); ref[rn++] = val; }
		else if (op == 2 && rn > 0) { __CPROVER_assert(list_front(&l)->v == ref[0] && list_front(&l)->live == 1, "list: front is the oldest element"); list_pop_front(&l); for (size_t q = 1; q < rn; q++) ref[q - 1] = ref[q]; rn--; }
		__CPROVER_assert(list_empty(&l) == (rn == 0), "list: empty() iff no elements");
	}
	FRGV_CANARY();
	list_dtor(&l);      /* destroying a non-empty list must destroy and free every item (leak check) */
	FRGV_NONE_LIVE();
}
