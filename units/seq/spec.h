/* ghost state for the sequence-container contracts */
#ifndef FRGV_SEQ_SPEC_H
#define FRGV_SEQ_SPEC_H
size_t frgv_k;          /* ghost index */
#define CAPM 8          /* capacity bound of the states considered (constant-range quantifiers); growth doubles it */
#define QM 20           /* quantifier range: covers 2 * (CAPM + 1) */
#define T_SZ sizeof(struct frgv_tracked)
#define SLOT_LIVE(e, j) ((e)[j].live == 1 && (e)[j].self == &(e)[j])
#define SLOTS_OK(e, sz, cap) __CPROVER_forall { size_t j; (j < QM && j < (cap)) ==> (j < (sz) ? SLOT_LIVE(e, j) : !(e)[j].live) }
#endif
