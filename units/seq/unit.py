LOOPFNS = []
LOOPS = dict(loops=True, expect_kinds=['postcondition', 'loop invariant', 'decreases'])
GROW = dict(loops=True, expect_kinds=['postcondition', 'loop invariant'])
over = {f: dict(LOOPS) for f in LOOPFNS}
for f in ('vec_push_0', 'vec_push_0__keeps', 'vec_push_1', 'vec_emplace_back__int_R'):
    over[f] = dict(GROW)

UNIT = dict(
    name='seq',
    roots=['rec:vec', 'rec:svec', 'rec:dyn', 'rec:stk', 'rec:ivec', 'rec:ilist*', 'rec:list*', 'fn:frg::*::swap'],
    pre_includes=['spec.h'],
    defines=['FRGV_ZERO_RECORD_LOCALS'],
    loop_contracts_required=LOOPFNS,
    auto_harness_pre='frgv_k = nondet_size_t();',
    auto_harness=dict(cls='P', serves=['C13', 'C16'], timeout=300, bound='capacity <= 8 before the call (constant-range quantifiers), sizes and contents symbolic'),
    contract_overrides=over,
    assumptions=['array containers: states with capacity <= 8 (quantifier range), all sizes/contents within that symbolic',
                 'element type frgv::tracked (value + in-band lifetime flags); allocator = CBMC allocation model, never fails'],
)

def obligations(tier):
    """class B: every operation sequence over a small alphabet up to a length bound, one CBMC run per sequence
    (concrete control flow, symbolic values/sizes)"""
    import itertools
    obs = []
    plans = [('h_vec_ops', 'vec__ensure_capacity', 7, 3 if tier == 'quick' else 4, 'vector: push(const&) / push(&&) / pop / resize(size+2) / clear / resize(size/2) / resize(2*capacity+1), then copy, move, assign, accessors'),
             ('h_svec_ops', 'svec__ensure_capacity', 6, 3, 'small_vector<T,4>: push_back / emplace_back / pop_back / resize(size+3) / resize(size/2) / resize(2*capacity+1) with accessors after every step'),
             ('h_ilist_ops', 'ilist_erase', 7, 3, 'intrusive_list over 6 nodes: push_back / push_front / pop_front / pop_back / erase(2nd) / insert(before 2nd) / splice(2 nodes at end); forward, backward, in_list checked after every step'),
             ('h_list_ops', 'list_pop_front', 3, 3 if tier == 'quick' else 5, 'list: emplace_back(int) / emplace_back(const T&) / front+pop_front; destroyed non-empty'),
             ('h_stk_ops', 'stk_push', 3, 3 if tier == 'quick' else 5, 'stack: push / emplace / top+pop')]
    for h, fn, nkinds, length, what in plans:
        for seq in itertools.product(range(nkinds), repeat=length):
            sid = ''.join(str(x) for x in seq)
            obs.append(dict(id='seq.%s.%s' % (h[2:], sid), entry=h, cls='B', serves=['C13', 'C16'], unwind=16, leak=True, function=fn,
                            defines=['NOPS=%d' % length, 'SEQ_OPS={%s}' % ','.join(str(x) for x in seq)],
                            bound='operation sequence %s of length %d from the empty container, symbolic values (%s)' % (sid, length, what),
                            timeout=1500))
    obs.append(dict(id='seq.svec_move_inline', entry='h_svec_ops', cls='B', serves=['C16'], unwind=16, leak=True, function='svec_ctor_move', kf='svec-move-relocates-inline',
                    defines=['NOPS=2', 'SEQ_OPS={0,1}', 'SVEC_MOVE_INLINE'], bound='two pushes (inline storage), then move construction', timeout=600))
    obs.append(dict(id='seq.dyn_ops', entry='h_dyn_ops', cls='B', serves=['C13', 'C16'], unwind=8, leak=True, function='dyn_ctor_copy',
                    bound='dyn_array of every size <= 4: construct, copy, move, assign, destroy', timeout=600))
    return obs
