// Instantiation TU: sequence containers (C13, C16).
#include <frgv_types.hpp>
#include <frg/vector.hpp>
#include <frg/small_vector.hpp>
#include <frg/dyn_array.hpp>
#include <frg/stack.hpp>
#include <frg/list.hpp>

namespace frgv {
using A_vec = frg::vector<tracked, valloc>;
using A_svec = frg::small_vector<tracked, 4, valloc>;
using A_dyn = frg::dyn_array<tracked, valloc>;
using A_stk = frg::stack<tracked, valloc>;
using A_ivec = frg::vector<int, valloc>;

struct lnode {
	int v;
	frg::default_list_hook<lnode> hook;
};
using A_ilist = frg::intrusive_list<lnode, frg::locate_member<lnode, frg::default_list_hook<lnode>, &lnode::hook>>;
using A_ilist_it = A_ilist::iterator;
using A_lhook = frg::default_list_hook<lnode>;
using A_list = frg::list<tracked, valloc>;

void frgv_force2(A_list &l, int x, const tracked &t) {
	l.emplace_back(x);
	l.emplace_back(t);
}

void frgv_force(A_vec &v, A_svec &s, A_stk &k, int x) {
	v.emplace_back(x);
	v.resize(size_t(3));
	v.resize(size_t(3), x);
	s.emplace_back(x);
	s.resize(size_t(3));
	k.emplace(x);
}
}
template class frg::vector<frgv::tracked, frgv::valloc>;
template class frg::small_vector<frgv::tracked, 4, frgv::valloc>;
template class frg::dyn_array<frgv::tracked, frgv::valloc>;
template class frg::stack<frgv::tracked, frgv::valloc>;
template class frg::vector<int, frgv::valloc>;
template struct frg::_list::intrusive_list<frgv::lnode, frg::locate_member<frgv::lnode, frg::default_list_hook<frgv::lnode>, &frgv::lnode::hook>>;
template struct frg::list<frgv::tracked, frgv::valloc>;
