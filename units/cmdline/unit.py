UNIT = dict(
    name='cmdline',
    roots=['fn:frgv::frgv_force', 'rec:sv', 'rec:opt*'],
    defines=['FRGV_TOTALITY'],
    sources=['harness.c'],
    assumptions=['option table: one flag option ("flag"), one number option ("num"), one string-view option ("str"), as in units/cmdline/inst.cpp',
                 'FRG_ASSERT failing = execution stops through the assertion hook (path ends, counted)'],
)
def obligations(tier):
    N = 7 if tier == 'quick' else 10
    return [dict(id='cmdline.parse_arguments.len%d' % n, entry='h_cmdline', cls='B', serves=['C20'], unwind=max(n + 3, 7), unwind_is_property=True, leak=True, flags=['--object-bits', '12'],
                 defines=['CL_LEN=%d' % n], function='frg_parse_arguments__frg_array_frg_option_3', timeout=3000, cost=n,
                 bound='every command line of exactly %d arbitrary bytes in an exact-size buffer; termination within %d iterations of every loop is an obligation' % (n, max(n + 3, 7)))
            for n in range(0, N + 1)]
