// Instantiation TU: kernel command line parser (C20).
#include <frg/cmdline.hpp>
#include <frg/array.hpp>
namespace frgv {
using A_sv = frg::basic_string_view<char>;
using A_opt = frg::option;
using A_opts3 = frg::array<frg::option, 3>;
void frgv_force(A_sv cmdline, bool &flag, int &num, A_sv &str) {
	frg::array<frg::option, 3> opts = {
		frg::option{"flag", frg::store_true(flag)},
		frg::option{"num", frg::as_number(num)},
		frg::option{"str", frg::as_string_view(str)}
	};
	frg::parse_arguments(cmdline, opts);
}
}
