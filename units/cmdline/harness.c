/* Command-line parser (C20): memory safety, frame and totality of parse_arguments over an option table with one option of each kind
 * (flag, number, string view), for every command line of exactly CL_LEN arbitrary bytes held in an exact-size buffer.
 * FRGV_TOTALITY: a failing FRG_ASSERT ends the path through the assertion hook (counted); everything before it is still checked. */
unsigned frgv_assert_hook_hits;
#define FRGV_CANARY() __CPROVER_assert(0, "canary: end of harness reachable")
unsigned nondet_uint(void);
unsigned long nondet_ulong(void);
#ifndef CL_LEN
#define CL_LEN 4
#endif
void h_cmdline(void)
{
	char *buf = malloc(CL_LEN);           /* exact size: one byte outside is an obligation failure */
	char copy[CL_LEN + 1];
	for (int i = 0; i < CL_LEN; i++) copy[i] = buf[i];
	_Bool flag = nondet_uint() & 1, flag0 = flag; int num = (int)nondet_uint(), num0 = num;
	struct sv str; str._pointer = 0; str._length = 0;
	struct sv cmdline; cmdline._pointer = buf; cmdline._length = CL_LEN;
	frgv_frgv_force(cmdline, &flag, &num, &str);
	/* reached only when parsing completed (a failing FRG_ASSERT stops the path before) */
	for (int i = 0; i < CL_LEN; i++) __CPROVER_assert(buf[i] == copy[i], "the parser does not write into the command line");
	__CPROVER_assert(flag == 0 || flag == 1, "store_true stores a bool");
	__CPROVER_assert(str._length == 0 || (__CPROVER_same_object(str._pointer, buf) && __CPROVER_POINTER_OFFSET(str._pointer) + str._length <= CL_LEN),
	                 "a stored string view lies inside the command line buffer");
	FRGV_CANARY();
	free(buf);
}
