/* fmt unit: model of the variadic argument list. Every va_arg in the lowered code takes the next slot of a finite list supplied by the
 * harness; taking more than was supplied is an obligation failure. ASSUMED: va_arg(ap, T) yields an arbitrary value of type T. */
#ifndef FRGV_FMT_VA_H
#define FRGV_FMT_VA_H
#include <stdarg.h>
void *frgv_va_next(unsigned long size);
/* the x86-64 va_list layout (24 bytes), so that sizeof(va_struct) matches the real one (layout self-check) */
typedef struct { unsigned gp_offset, fp_offset; void *overflow_arg_area, *reg_save_area; } frgv_va_list_t[1];
#define va_list frgv_va_list_t
#undef va_arg
#define va_arg(ap, T) (*(T *)frgv_va_next(sizeof(T)))
#endif
