/* printf_format / fmt() as parsers (C20): for every format of exactly FMT_LEN arbitrary bytes in an exact-size buffer, parsing terminates,
 * reads nothing outside the buffer, takes no variadic argument beyond those the directives consume, hands the agent only text of the buffer,
 * and either completes or stops through the assertion hook (FRGV_TOTALITY: a failing FRG_ASSERT ends the path, counted). */
unsigned frgv_assert_hook_hits;
#define FRGV_CANARY() __CPROVER_assert(0, "canary: end of harness reachable")
unsigned nondet_uint(void);
unsigned long long nondet_ull(void);
#ifndef FMT_LEN
#define FMT_LEN 3
#endif
#define NSLOT 24
static unsigned long long va_slot[NSLOT]; static int va_used, va_by_parser, va_supplied; static _Bool in_agent;
void *frgv_va_next(unsigned long size)
{
	__CPROVER_assert(va_used < va_supplied, "a variadic argument is taken although the directives seen so far do not consume one");
	__CPROVER_assume(va_used < NSLOT);
	va_slot[va_used] = nondet_ull();
	if (!in_agent) va_by_parser++;
	return &va_slot[va_used++];
}
static char *g_fmt; static unsigned long g_len;
static int g_stars, g_convs; static _Bool g_dollar;

/* the agent: a user-supplied object; any result */
struct res frgv_vagent_op_call_0(struct frgv_vagent *this, char c)
{
	struct res r; r.e_ = nondet_uint() & 1; return r;
}
struct res frgv_vagent_op_call_1(struct frgv_vagent *this, char *c, unsigned long n)
{
	__CPROVER_assert(__CPROVER_same_object(c, g_fmt) && __CPROVER_POINTER_OFFSET(c) + n <= g_len && n >= 1, "literal text handed to the agent lies inside the format buffer (before its terminator)");
	struct res r; r.e_ = nondet_uint() & 1; return r;
}
struct res frgv_vagent_op_call_2(struct frgv_vagent *this, char t, struct fo *opts, frg_printf_size_mod szmod)
{
	__CPROVER_assert(szmod >= 0 && szmod <= 7, "size modifier is one of the enumerators");
	__CPROVER_assert(opts->precision._non_null == 0 || opts->precision._non_null == 1, "precision is a well-formed optional");
	__CPROVER_assert(opts->arg_pos >= -1 && opts->arg_pos <= 8, "positional index is 1..9 (or none)");
	/* the conversion consumes its own argument (as do_printf_* would) */
	in_agent = 1; va_supplied++; (void)va_arg(this->vsp_->args, int); in_agent = 0;
	struct res r; r.e_ = nondet_uint() & 1; return r;
}
/* value formatting of fmt() arguments: outside this unit (C19); any options the parser built are accepted after a sanity check */
void frg_format__int_frgv_vsink__1(int *object, struct fo *fo, struct frgv_vsink *sink)
{
	__CPROVER_assert(fo->precision._non_null == 0 || fo->precision._non_null == 1, "options handed to the value formatter are well formed");
}
void frg_format__const_char_P_frgv_vsink__1(char **object, struct fo *fo, struct frgv_vsink *sink) { }
void frgv_vsink_append_0(struct frgv_vsink *this, char c) { }
void frgv_vsink_append_1(struct frgv_vsink *this, char *s) { }
void frgv_vemit_op_call(struct frgv_vemit *this, char *msg) { }

/* FMT_SKEL (optional): a skeleton whose '#' positions are arbitrary decimal digits and whose other characters are fixed: the
 * grammar-generated longer inputs (digit runs long enough to leave the range of int) */
#ifdef FMT_SKEL
static const char fmt_skel[] = FMT_SKEL;
#undef FMT_LEN
#define FMT_LEN (sizeof(fmt_skel) - 1)
#define SKEL_FILL(buf) do { for (unsigned i = 0; i < FMT_LEN; i++) { if (fmt_skel[i] == '#') __CPROVER_assume(buf[i] >= '0' && buf[i] <= '9'); else buf[i] = fmt_skel[i]; } } while (0)
#else
#define SKEL_FILL(buf) do { } while (0)
#endif
void h_printf_parse(void)
{
	__CPROVER_assert(0, "canary0: harness entry reachable");
	char *buf = malloc(FMT_LEN + 1);           /* exact size: FMT_LEN arbitrary bytes and the terminator */
	buf[FMT_LEN] = 0;
	SKEL_FILL(buf);
	g_fmt = buf; g_len = FMT_LEN;
	/* independent count of what the directives may consume: one argument per '*' (for formats without positional arguments) */
	g_stars = 0; g_dollar = 0;
	for (int i = 0; i < FMT_LEN; i++) { if (buf[i] == '*') g_stars++; if (buf[i] == '$') g_dollar = 1; if (buf[i] == 0) break; }
	union frg_arg arg_list[9];                 /* NL_ARGMAX slots for positional arguments */
	struct vas vs; vs.arg_list = arg_list; vs.num_args = 0;
	struct frgv_vsink sink; struct frgv_vagent agent; agent.sink_ = &sink; agent.vsp_ = &vs;
	va_used = 0; va_by_parser = 0; in_agent = 0;
	va_supplied = g_dollar ? 9 + g_stars : g_stars;
	struct res r = frg_printf_format__frgv_vagent(agent, buf, &vs);
	__CPROVER_assert(r.e_ == frg_format_error_success || r.e_ == frg_format_error_agent_error, "result is success or the agent's error");
	__CPROVER_assert(g_dollar || va_by_parser <= g_stars, "the parser itself takes one argument per '*' and no other");
	FRGV_CANARY();
	free(buf);
}

/* fmt(): {}-spec state machine over a string_view (no terminator) with two arguments */
void h_fmt_parse(void)
{
	__CPROVER_assert(0, "canary0: harness entry reachable");
	char *buf = malloc(FMT_LEN);
	SKEL_FILL(buf);
	struct sv f; f._pointer = buf; f._length = FMT_LEN;
	int x = 7; char *str = "ab";
	struct frgv_vsink sink;
	struct frg_detail__fmt_impl_int_R_const_char_PR o = frg_fmt__int_R_const_char_PR(f, &x, &str);
	frg_format__frg_detail__fmt_impl_int_R_const_char_PR__frgv_vsink(&o, &sink);
	FRGV_CANARY();
	free(buf);
}
