UNIT = dict(
    name='fmtp',
    extern=('frg_format__int_frgv_vsink__1', 'frg_format__const_char_P_frgv_vsink__1'),
    roots=['fn:frgv::frgv_force'],
    first_includes=['va.h'],
    defines=['FRGV_TOTALITY'],
    sources=['harness.c'],
    assumptions=['fmt(): the per-argument value formatting (format(arg, options, sink)) is a stub here - this unit checks the {}-spec parser; the output side is C19',
                 'variadic arguments: finite list model (va.h); each conversion consumes one argument in the agent stub',
                 'agent and sink are user-supplied objects: stubs returning any result',
                 'FRG_ASSERT failing = execution stops through the assertion hook (path ends, counted)'],
)
def obligations(tier):
    obs = []
    N = 4 if tier == 'quick' else 6
    for n in range(0, N + 1):
        obs.append(dict(id='fmt.printf_parse.len%d' % n, entry='h_printf_parse', cls='B', serves=['C20'], unwind=n + 3, unwindset=['frg_pop_arg__int.0:11'], unwind_is_property=True, leak=True,
                        flags=['--object-bits', '12'], defines=['FMT_LEN=%d' % n], function='frg_printf_format__frgv_vagent', timeout=3000, cost=n,
                        bound='every printf format of exactly %d arbitrary bytes plus terminator in an exact-size buffer' % n))
        obs.append(dict(id='fmt.fmt_parse.len%d' % n, entry='h_fmt_parse', cls='B', serves=['C20'], unwind=n + 3, unwind_is_property=True, leak=True,
                        flags=['--object-bits', '12'], defines=['FMT_LEN=%d' % n], function='frg_detail__fmt_impl_int_R_const_char_PR__format_object__frgv_vsink', timeout=3000, cost=n,
                        bound='every fmt() format of exactly %d arbitrary bytes in an exact-size buffer, two arguments (int, const char *)' % n))
    # grammar-generated longer inputs: digit runs at and beyond the range of int (concrete digits: symbolic ones make every digit a
    # possible end of the run and the number of paths explode; what matters here is the accumulation arithmetic)
    runs = ['2147483647', '2147483648', '9999999999', '99999999999999999999']
    pf = ['%' + r + 'd' for r in runs] + ['%.' + r + 'd' for r in runs] + ['%1$' + runs[2] + 'd', '%-0' + runs[1] + '.' + runs[2] + 'ld', '%' + runs[0] + '.' + runs[0] + 's']
    stops = {1, 2, 3, 5, 6, 7, 8, 9}      # width / precision beyond INT_MAX: must stop in the assertion hook instead of overflowing
    for i, sk in enumerate(pf):
        obs.append(dict(expect_no_return=(i in stops), id='fmt.printf_parse.digits%d' % i, entry='h_printf_parse', cls='B', serves=['C20'], unwind=len(sk) + 3, unwindset=['frg_pop_arg__int.0:11'], unwind_is_property=True, leak=True,
                        flags=['--object-bits', '12'], defines=['FMT_SKEL="%s"' % sk], function='frg_printf_format__frgv_vagent', timeout=1200, cost=5,
                        bound='the printf format %s%s' % (sk, ' (must stop through the assertion hook)' if i in stops else '')))
    ff = ['{:' + r + '}' for r in runs] + ['{0:' + runs[2] + 'x}', '{' + runs[3] + '}', '{:##########}']
    for i, sk in enumerate(ff):
        obs.append(dict(id='fmt.fmt_parse.digits%d' % i, entry='h_fmt_parse', cls='B', serves=['C20'], unwind=len(sk) + 3, unwind_is_property=True, leak=True,
                        flags=['--object-bits', '12'], defines=['FMT_SKEL="%s"' % sk], function='frg_detail__fmt_impl_int_R_const_char_PR__format_object__frgv_vsink', timeout=1200, cost=5,
                        bound='the fmt() format %s (every # an arbitrary decimal digit)' % sk))
    return obs
