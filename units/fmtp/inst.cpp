#include "../fmt/inst.cpp"
