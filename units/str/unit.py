LOOPFNS = ['sv_find_first', 'sv_find_last', 'sv_find_first_of', 'sv_op_eq', 'sv_to_number__int', 'sv_to_number__unsigned_int',
           'sv_to_number__long', 'sv_to_number__unsigned_long', 'svhash_op_call', 'frg_generic_strlen__char']
LOOPS = dict(loops=True, expect_kinds=['postcondition', 'loop invariant', 'decreases'])
over = {f: dict(LOOPS) for f in LOOPFNS}
# starts_with / ends_with call operator== and sub_string: use their contracts
over['sv_starts_with'] = dict(LOOPS)
over['sv_ends_with'] = dict(LOOPS)
over['sv_sub_string__rejects'] = dict(expect_kinds=['postcondition'], defines=['FRGV_TOTALITY'], expect_no_return=True)
for f in ('sv_to_number__int', 'sv_to_number__unsigned_int', 'sv_to_number__long', 'sv_to_number__unsigned_long'):
    over[f]['serves'] = ['C15', 'C20']

UNIT = dict(
    name='str',
    roots=['rec:sv', 'rec:str', 'rec:svhash', 'rec:strhash', 'fn:frgv::frgv_force', 'fn:frg::generic_str*'],
    pre_includes=['spec.h'],
    defines=['FRGV_ZERO_RECORD_LOCALS'],
    loop_contracts_required=LOOPFNS,
    auto_harness_pre='frgv_k = nondet_size_t(); frgv_j = nondet_size_t();',
    auto_harness=dict(cls='P', serves=['C15'], timeout=300),
    contract_overrides=over,
    assumptions=['views: buffers up to 4096 bytes (CBMC object-size bound), lengths otherwise symbolic',
                 'Char = char only'],
)

def obligations(tier):
    obs = []
    for h, fn in (('h_str_ctor_buf', 'str_ctor_3'), ('h_str_ctor_cstr', 'str_ctor_1'), ('h_str_ctor_view', 'str_ctor_5'),
                  ('h_str_ctor_fill', 'str_ctor_7'), ('h_str_copy_assign', 'str_ctor_copy'), ('h_str_resize', 'str_resize'),
                  ('h_str_concat', 'str_op_add_0'), ('h_str_compare', 'str_compare_0')):
        obs.append(dict(id='str.%s' % h[2:], entry=h, cls='B', serves=['C15', 'C16'], unwind=16, leak=True, function=fn,
                        bound='all strings of length <= 6 over the full 8-bit alphabet (embedded NULs included), exact-size source buffers',
                        timeout=600))
    return obs
