/* ghost state for the string/view contracts (visible to woven loop contracts) */
#ifndef FRGV_STR_SPEC_H
#define FRGV_STR_SPEC_H
size_t frgv_k;        /* ghost index: "for every position" is proved for the arbitrary position frgv_k */
size_t frgv_j;        /* second ghost index (position inside the 'chars' set of find_first_of) */
#define SVMAX 4096    /* largest buffer considered (CBMC object-size bound); lengths are otherwise symbolic */
#define NPOS ((size_t)-1)
/* Horner value of the first n digits as the contract accumulates it (ghost) */
#endif
