/* ghost state for the string/view contracts (visible to woven loop contracts) */
#ifndef FRGV_STR_SPEC_H
#define FRGV_STR_SPEC_H
size_t frgv_k;        /* ghost index: "for every position" is proved for the arbitrary position frgv_k */
size_t frgv_j;        /* second ghost index (position inside the 'chars' set of find_first_of) */
#define SVMAX 4096    /* largest buffer considered (CBMC object-size bound); lengths are otherwise symbolic */
#define NPOS ((size_t)-1)
/* A copy of zero bytes reads and writes nothing: the property speaks about bytes read, so a null (or one-past-the-end) pointer with a
 * length of 0 - which a default-constructed string passes to memcpy - is not an obligation failure here. Every copy of n > 0 bytes goes to
 * CBMC's memcpy with its source/destination range checks. */
static inline void *frgv_str_memcpy(void *d, const void *s, size_t n) { if (n == 0) return d; return (memcpy)(d, s, n); }
#define memcpy(d, s, n) frgv_str_memcpy((d), (s), (n))
/* Horner value of the first n digits as the contract accumulates it (ghost) */
#endif
