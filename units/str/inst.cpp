// Instantiation TU: strings and views (C15, C16, C20 to_number).
#include <frgv_types.hpp>
#include <frg/string.hpp>
namespace frgv {
using A_sv = frg::basic_string_view<char>;
using A_str = frg::basic_string<char, valloc>;
using A_svhash = frg::hash<frg::basic_string_view<char>>;
using A_strhash = frg::hash<A_str>;
using A_opt_int = frg::optional<int>;
using A_opt_uint = frg::optional<unsigned int>;
using A_opt_long = frg::optional<long>;
using A_opt_ul = frg::optional<unsigned long>;
void frgv_force(A_sv v, A_svhash h, A_strhash h2, A_str &s) {
	(void)v.to_number<int>();
	(void)v.to_number<unsigned int>();
	(void)v.to_number<long>();
	(void)v.to_number<unsigned long>();
	(void)h(v); (void)h2(s);
}
}
template class frg::basic_string_view<char>;
template class frg::basic_string<char, frgv::valloc>;
