/* Contracts for basic_string_view<char> and basic_string<char, valloc> (C15, C20 to_number).
 * Buffers are exact-size fresh objects: reading one byte outside [data, data+size) is an obligation failure. */
/* data() is a valid (possibly zero-length) object: CBMC flags nullptr + 0, which C++ allows, so null empty views are left out */
#define VIEW_OK(v) ((v)->_length <= SVMAX && __CPROVER_is_fresh((v)->_pointer, (v)->_length))
#define VIEWV_OK(v) ((v)._length <= SVMAX && __CPROVER_is_fresh((v)._pointer, (v)._length))
#define THIS_VIEW __CPROVER_requires(__CPROVER_is_fresh(this, sizeof(*this)) && VIEW_OK(this))

size_t sv_size_contract(struct sv *this) THIS_VIEW __CPROVER_assigns()
__CPROVER_ensures(__CPROVER_return_value == this->_length);
char *sv_data_contract(struct sv *this) THIS_VIEW __CPROVER_assigns()
__CPROVER_ensures(__CPROVER_return_value == this->_pointer);
char *sv_op_index_contract(struct sv *this, unsigned long index) THIS_VIEW __CPROVER_requires(index < this->_length) __CPROVER_assigns()
__CPROVER_ensures(__CPROVER_return_value == this->_pointer + index);

/* find_first: the result is the first position >= start_from holding c, or npos if there is none */
size_t sv_find_first_contract(struct sv *this, char c, unsigned long start_from)
THIS_VIEW __CPROVER_assigns()
__CPROVER_ensures(__CPROVER_return_value == NPOS ||
                  (start_from <= __CPROVER_return_value && __CPROVER_return_value < this->_length && this->_pointer[__CPROVER_return_value] == c))
__CPROVER_ensures(!(start_from <= frgv_k && frgv_k < this->_length && (__CPROVER_return_value == NPOS || frgv_k < __CPROVER_return_value))
                  || this->_pointer[frgv_k] != c);

size_t sv_find_last_contract(struct sv *this, char c)
THIS_VIEW __CPROVER_assigns()
__CPROVER_ensures(__CPROVER_return_value == NPOS || (__CPROVER_return_value < this->_length && this->_pointer[__CPROVER_return_value] == c))
__CPROVER_ensures(!(frgv_k < this->_length && (__CPROVER_return_value == NPOS || frgv_k > __CPROVER_return_value)) || this->_pointer[frgv_k] != c);

/* find_first_of: result holds one of chars; no earlier position (>= start_from) holds chars[frgv_j] */
size_t sv_find_first_of_contract(struct sv *this, struct sv chars, unsigned long start_from)
THIS_VIEW __CPROVER_requires(VIEWV_OK(chars)) __CPROVER_assigns()
__CPROVER_ensures(__CPROVER_return_value == NPOS || (start_from <= __CPROVER_return_value && __CPROVER_return_value < this->_length))
__CPROVER_ensures(!(start_from <= frgv_k && frgv_k < this->_length && (__CPROVER_return_value == NPOS || frgv_k < __CPROVER_return_value)
                    && frgv_j < chars._length) || this->_pointer[frgv_k] != chars._pointer[frgv_j]);

/* operator==: true implies equal length and equal content at every position; different lengths give false */
_Bool sv_op_eq_contract(struct sv *this, struct sv other)
THIS_VIEW __CPROVER_requires(VIEWV_OK(other)) __CPROVER_assigns()
__CPROVER_ensures(!__CPROVER_return_value || (this->_length == other._length && (frgv_k >= this->_length || this->_pointer[frgv_k] == other._pointer[frgv_k])))
__CPROVER_ensures(this->_length == other._length || !__CPROVER_return_value);

struct sv sv_sub_string_contract(struct sv *this, unsigned long from, unsigned long size)
THIS_VIEW __CPROVER_requires(from <= this->_length && size <= this->_length - from) __CPROVER_assigns()
__CPROVER_ensures(__CPROVER_return_value._pointer == this->_pointer + from && __CPROVER_return_value._length == size);

/* the library's own bounds assertion must reject every (from, size) that leaves the view - also when from+size wraps */
struct sv sv_sub_string_contract__rejects(struct sv *this, unsigned long from, unsigned long size)
THIS_VIEW __CPROVER_requires(!(from <= this->_length && size <= this->_length - from)) __CPROVER_assigns(frgv_assert_hook_hits)
__CPROVER_ensures(0);

_Bool sv_starts_with_contract(struct sv *this, struct sv other)
THIS_VIEW __CPROVER_requires(VIEWV_OK(other)) __CPROVER_assigns()
__CPROVER_ensures(!__CPROVER_return_value || (other._length <= this->_length && (frgv_k >= other._length || this->_pointer[frgv_k] == other._pointer[frgv_k])))
__CPROVER_ensures(other._length <= this->_length || !__CPROVER_return_value);

_Bool sv_ends_with_contract(struct sv *this, struct sv other)
THIS_VIEW __CPROVER_requires(VIEWV_OK(other)) __CPROVER_assigns()
__CPROVER_ensures(!__CPROVER_return_value || (other._length <= this->_length &&
                  (frgv_k >= other._length || this->_pointer[this->_length - other._length + frgv_k] == other._pointer[frgv_k])))
__CPROVER_ensures(other._length <= this->_length || !__CPROVER_return_value);

/* to_number: memory-safe and overflow-free for EVERY byte string; null_opt iff some character is not a digit or the
 * value does not fit (the value equation is checked for bounded lengths in the B-class harness) */
#define TO_NUMBER_CONTRACT(fn, OPT) \
void fn##_contract(struct OPT *__ret, struct sv *this) \
THIS_VIEW __CPROVER_requires(__CPROVER_is_fresh(__ret, sizeof(*__ret))) \
__CPROVER_assigns(__CPROVER_object_whole(__ret)) \
__CPROVER_ensures(!__ret->_non_null || frgv_k >= this->_length || (this->_pointer[frgv_k] >= '0' && this->_pointer[frgv_k] <= '9'));
TO_NUMBER_CONTRACT(sv_to_number__int, opt_int)
TO_NUMBER_CONTRACT(sv_to_number__unsigned_int, opt_uint)
TO_NUMBER_CONTRACT(sv_to_number__long, opt_long)
TO_NUMBER_CONTRACT(sv_to_number__unsigned_long, opt_ul)

unsigned int svhash_op_call_contract(struct svhash *this, struct sv *string)
__CPROVER_requires(__CPROVER_is_fresh(string, sizeof(*string)) && VIEW_OK(string)) __CPROVER_assigns()
__CPROVER_ensures(string->_length != 0 || __CPROVER_return_value == 0);

/* generic_strlen on a NUL-terminated buffer of exactly frgv_k + 1 bytes whose last byte is the (not necessarily first) NUL */
size_t frg_generic_strlen__char_contract(char *c)
__CPROVER_requires(frgv_k < SVMAX && __CPROVER_is_fresh(c, frgv_k + 1) && c[frgv_k] == 0) __CPROVER_assigns()
__CPROVER_ensures(__CPROVER_return_value <= frgv_k && c[__CPROVER_return_value] == 0)
__CPROVER_ensures(frgv_j >= __CPROVER_return_value || c[frgv_j] != 0);

#if 0   /* woven into the lowered code by frg2c */
//@ loop sv_find_first#0
__CPROVER_assigns(i)
__CPROVER_loop_invariant(start_from <= i && (i <= this->_length || i == start_from))
__CPROVER_loop_invariant(!(start_from <= frgv_k && frgv_k < i && frgv_k < this->_length) || this->_pointer[frgv_k] != c)
__CPROVER_decreases(this->_length > i ? this->_length - i : 0)
//@ end
//@ loop sv_find_last#0
__CPROVER_assigns(i)
__CPROVER_loop_invariant(i <= this->_length)
__CPROVER_loop_invariant(!(i <= frgv_k && frgv_k < this->_length) || this->_pointer[frgv_k] != c)
__CPROVER_decreases(i)
//@ end
//@ loop sv_find_first_of#0
__CPROVER_assigns(i)
__CPROVER_loop_invariant(start_from <= i && (i <= this->_length || i == start_from))
__CPROVER_loop_invariant(!(start_from <= frgv_k && frgv_k < i && frgv_k < this->_length && frgv_j < chars._length) || this->_pointer[frgv_k] != chars._pointer[frgv_j])
__CPROVER_decreases(this->_length > i ? this->_length - i : 0)
//@ end
//@ loop sv_find_first_of#1
__CPROVER_assigns(j)
__CPROVER_loop_invariant(j <= chars._length)
__CPROVER_loop_invariant(!(frgv_k == i && frgv_j < j) || this->_pointer[frgv_k] != chars._pointer[frgv_j])
__CPROVER_decreases(chars._length - j)
//@ end
//@ loop sv_op_eq#0
__CPROVER_assigns(i)
__CPROVER_loop_invariant(i <= this->_length)
__CPROVER_loop_invariant(!(frgv_k < i) || this->_pointer[frgv_k] == other._pointer[frgv_k])
__CPROVER_decreases(this->_length - i)
//@ end
//@ loop sv_to_number__int#0
__CPROVER_assigns(i, value, __CPROVER_object_whole(__ret))
__CPROVER_loop_invariant(i <= this->_length)
__CPROVER_loop_invariant(!(frgv_k < i) || (this->_pointer[frgv_k] >= '0' && this->_pointer[frgv_k] <= '9'))
__CPROVER_decreases(this->_length - i)
//@ end
//@ loop sv_to_number__unsigned_int#0
__CPROVER_assigns(i, value, __CPROVER_object_whole(__ret))
__CPROVER_loop_invariant(i <= this->_length)
__CPROVER_loop_invariant(!(frgv_k < i) || (this->_pointer[frgv_k] >= '0' && this->_pointer[frgv_k] <= '9'))
__CPROVER_decreases(this->_length - i)
//@ end
//@ loop sv_to_number__long#0
__CPROVER_assigns(i, value, __CPROVER_object_whole(__ret))
__CPROVER_loop_invariant(i <= this->_length)
__CPROVER_loop_invariant(!(frgv_k < i) || (this->_pointer[frgv_k] >= '0' && this->_pointer[frgv_k] <= '9'))
__CPROVER_decreases(this->_length - i)
//@ end
//@ loop sv_to_number__unsigned_long#0
__CPROVER_assigns(i, value, __CPROVER_object_whole(__ret))
__CPROVER_loop_invariant(i <= this->_length)
__CPROVER_loop_invariant(!(frgv_k < i) || (this->_pointer[frgv_k] >= '0' && this->_pointer[frgv_k] <= '9'))
__CPROVER_decreases(this->_length - i)
//@ end
//@ loop svhash_op_call#0
__CPROVER_assigns(i, hash)
__CPROVER_loop_invariant(i <= string->_length && (string->_length != 0 || hash == 0))
__CPROVER_decreases(string->_length - i)
//@ end
//@ loop frg_generic_strlen__char#0
__CPROVER_assigns(len, c)
__CPROVER_loop_invariant(len <= frgv_k && c == __CPROVER_loop_entry(c) + len)
__CPROVER_loop_invariant(!(frgv_j < len) || __CPROVER_loop_entry(c)[frgv_j] != 0)
__CPROVER_decreases(frgv_k - len)
//@ end
#endif
