/* Harness support for the str unit. */
unsigned frgv_assert_hook_hits;
#define FRGV_CANARY() __CPROVER_assert(0, "canary: end of harness reachable")
size_t nondet_size_t(void);
#define FRGV_MAX_ALLOC 9
#include "valloc_stubs.c"

/* ---------------------------------------------------------------------------------------------
 * Owned strings: bounded stand-in (class B): every length up to STR_L, full 8-bit alphabet, embedded NULs,
 * source buffers of exactly the stated size (one byte past the end is inaccessible). */
#define STR_L 6
static struct frgv_valloc frgv_a;
/* a fresh exact-size buffer with arbitrary contents */
static char *mk_buf(size_t n) { char *b = malloc(n); __CPROVER_assume(b != 0); return b; }
static void mk_str(struct str *s, size_t n) { char *b = mk_buf(n); str_ctor_3(s, b, n, frgv_a); free(b); }
#define STR_INV(s) __CPROVER_assert((s)->_buffer != 0 && (s)->_buffer[(s)->_length] == 0 && __CPROVER_OBJECT_SIZE((s)->_buffer) == (s)->_length + 1, \
                                    "owned string: buffer of size()+1 bytes with data()[size()] == 0")

void h_str_ctor_buf(void)
{
	size_t n = nondet_size_t(), k = nondet_size_t(); __CPROVER_assume(n <= STR_L && k < n);
	char *b = mk_buf(n); struct str s;
	str_ctor_3(&s, b, n, frgv_a);
	__CPROVER_assert(str_size(&s) == n && (n == 0 || s._buffer[k] == b[k]), "string(ptr, len) holds exactly the given bytes");
	STR_INV(&s); FRGV_CANARY();
	str_dtor(&s); free(b);
}
void h_str_ctor_cstr(void)
{
	size_t n = nondet_size_t(), k = nondet_size_t(); __CPROVER_assume(n <= STR_L);
	char *b = mk_buf(n + 1); b[n] = 0; struct str s;
	size_t len = 0; while (len < n && b[len]) len++;      /* reference strlen */
	str_ctor_1(&s, b, frgv_a);
	__CPROVER_assert(str_size(&s) == len && (k >= len || s._buffer[k] == b[k]), "string(c_string) has strlen semantics");
	STR_INV(&s); FRGV_CANARY();
	str_dtor(&s); free(b);
}
void h_str_ctor_view(void)
{
	size_t n = nondet_size_t(), k = nondet_size_t(); __CPROVER_assume(n <= STR_L && k < n);
	char *b = mk_buf(n); struct sv v; sv_ctor_1(&v, b, n); struct str s;
	str_ctor_5(&s, &v, frgv_a);
	__CPROVER_assert(str_size(&s) == n && (n == 0 || s._buffer[k] == b[k]), "string(view) holds exactly the view's bytes");
	STR_INV(&s); FRGV_CANARY();
	str_dtor(&s); free(b);
}
void h_str_ctor_fill(void)
{
	size_t n = nondet_size_t(), k = nondet_size_t(); char c; __CPROVER_assume(n <= STR_L && k < n);
	struct str s; str_ctor_7(&s, n, c, frgv_a);
	__CPROVER_assert(str_size(&s) == n && (n == 0 || s._buffer[k] == c), "string(n, c)");
	STR_INV(&s); FRGV_CANARY(); str_dtor(&s);
}
void h_str_copy_assign(void)
{
	size_t n = nondet_size_t(), m = nondet_size_t(), k = nondet_size_t(); __CPROVER_assume(n <= STR_L && m <= STR_L && k < n);
	struct str a, b, c; mk_str(&a, n); mk_str(&b, m);
	str_ctor_copy(&c, &a);
	__CPROVER_assert(str_size(&c) == n && (n == 0 || c._buffer[k] == a._buffer[k]) && c._buffer != a._buffer, "copy is equal and independent");
	STR_INV(&c);
	/* b = a  (operator= takes its argument by value: the caller copy-constructs it and destroys it afterwards) */
	struct str tmp; str_ctor_copy(&tmp, &a); str_assign(&b, &tmp); str_dtor(&tmp);
	__CPROVER_assert(str_size(&b) == n && (n == 0 || b._buffer[k] == a._buffer[k]), "assignment copies the content");
	STR_INV(&b); STR_INV(&a);
	/* a default-constructed string (no buffer) as the source of a copy and of an assignment, and as operand of == */
	struct str e; memset(&e, 0, sizeof(e)); str_ctor_0(&e, frgv_a);
	__CPROVER_assert(str_size(&e) == 0, "a default-constructed string is empty");
	struct str ce; str_ctor_copy(&ce, &e);
	__CPROVER_assert(str_size(&ce) == 0, "copy of a default-constructed string is empty (nothing is read through its null buffer)");
	struct str tmp2; str_ctor_copy(&tmp2, &e); str_assign(&b, &tmp2); str_dtor(&tmp2);
	__CPROVER_assert(str_size(&b) == 0, "assigning a default-constructed string empties the target");
	__CPROVER_assert(str_op_eq_0(&e, &ce) && (str_op_eq_0(&a, &e) == (n == 0)), "comparison with an empty string");
	FRGV_CANARY();
	str_dtor(&a); str_dtor(&b); str_dtor(&c); str_dtor(&e); str_dtor(&ce);
}
void h_str_resize(void)
{
	size_t n = nondet_size_t(), m = nondet_size_t(), k = nondet_size_t(); __CPROVER_assume(n <= STR_L && m <= STR_L);
	struct str a; mk_str(&a, n); char old = (k < n) ? a._buffer[k] : 0;
	str_resize(&a, m);
	__CPROVER_assert(str_size(&a) == m && (k >= n || k >= m || a._buffer[k] == old), "resize keeps the common prefix");
	STR_INV(&a); FRGV_CANARY(); str_dtor(&a);
}
void h_str_concat(void)
{
	size_t n = nondet_size_t(), m = nondet_size_t(), k = nondet_size_t(); char c; __CPROVER_assume(n <= STR_L && m <= STR_L && k < n + m);
	struct str a; mk_str(&a, n); char *b = mk_buf(m); struct sv v; sv_ctor_1(&v, b, m);
	struct str r; FRGV_RAW_STORAGE(r);
	str_op_add_0(&r, &a, &v);                            /* a + view */
	__CPROVER_assert(str_size(&r) == n + m && (n + m == 0 || r._buffer[k] == (k < n ? a._buffer[k] : b[k - n])), "operator+(view) concatenates");
	STR_INV(&r); str_dtor(&r);
	struct str r2; FRGV_RAW_STORAGE(r2);
	str_op_add_1(&r2, &a, c);                            /* a + char */
	__CPROVER_assert(str_size(&r2) == n + 1 && r2._buffer[n] == c && (k >= n || r2._buffer[k] == a._buffer[k]), "operator+(char) appends");
	STR_INV(&r2); str_dtor(&r2);
	char a_k = k < n ? a._buffer[k] : 0;
	str_op_add_assign_0(&a, &v);                         /* a += view */
	__CPROVER_assert(str_size(&a) == n + m && (n + m == 0 || a._buffer[k] == (k < n ? a_k : b[k - n])), "operator+=(view) appends");
	STR_INV(&a);
	str_push_back(&a, c);                                /* push_back */
	__CPROVER_assert(str_size(&a) == n + m + 1 && a._buffer[n + m] == c, "push_back appends one character");
	STR_INV(&a); FRGV_CANARY();
	str_dtor(&a); free(b);
}
void h_str_compare(void)
{
	size_t n = nondet_size_t(), m = nondet_size_t(); __CPROVER_assume(n <= STR_L && m <= STR_L);
	struct str a, b; mk_str(&a, n); mk_str(&b, m);
	_Bool same = (n == m); for (size_t i = 0; i < STR_L; i++) if (i < n && i < m && a._buffer[i] != b._buffer[i]) same = 0;
	__CPROVER_assert(str_op_eq_0(&a, &b) == same, "operator== is length and content equality");
	__CPROVER_assert((str_compare_0(&a, &b) == 0) == same, "compare() == 0 iff equal");
	__CPROVER_assert(str_compare_0(&a, &b) == -str_compare_0(&b, &a), "compare() is antisymmetric");
	struct sv v = str_conv_basic_string_view(&a);
	__CPROVER_assert(v._pointer == a._buffer && v._length == n, "conversion to a view denotes the same characters");
	/* the C-string overloads: b's buffer is NUL-terminated; it denotes its characters up to the first NUL */
	size_t bl = 0; while (bl < m && b._buffer[bl] != 0) bl++;
	_Bool same_c = (n == bl); for (size_t i = 0; i < STR_L; i++) if (i < n && i < bl && a._buffer[i] != b._buffer[i]) same_c = 0;
	__CPROVER_assert((str_compare_1(&a, b._buffer) == 0) == same_c, "compare(const char *) == 0 iff same length and content as the C string");
	__CPROVER_assert(str_op_eq_1(&a, b._buffer) == same_c, "operator==(const char *) is length and content equality");
	__CPROVER_assert(n == bl || str_compare_1(&a, b._buffer) == (n < bl ? -1 : 1), "compare(const char *) orders by length first");
	FRGV_CANARY(); str_dtor(&a); str_dtor(&b);
}
