/* Harness support for the holders unit (the per-contract harnesses are generated). */
unsigned frgv_assert_hook_hits;
#define FRGV_CANARY() __CPROVER_assert(0, "canary: end of harness reachable")
size_t nondet_size_t(void);
#include "tracked_stubs.c"
