// Instantiation TU: value holders (C17, C16).
#include <frgv_types.hpp>
#include <frg/optional.hpp>
#include <frg/expected.hpp>
#include <frg/variant.hpp>
#include <frg/manual_box.hpp>
#include <frg/eternal.hpp>
#include <frg/tuple.hpp>
#include <frg/unique.hpp>
#include <frg/allocation.hpp>

namespace frgv {
using A_opt = frg::optional<tracked>;
using A_opti = frg::optional<int>;
enum class err_t { ok = 0, fail = 1, other = 2 };
using A_exp = frg::expected<err_t, tracked>;
using A_expi = frg::expected<err_t, int>;
using A_expv = frg::expected<err_t, void>;
using A_var = frg::variant<int, tracked, char>;
using A_box = frg::manual_box<tracked>;
using A_uptr = frg::unique_ptr<tracked, valloc>;
using A_umem = frg::unique_memory<valloc>;
using A_tup = frg::tuple<int, tracked, char>;
using A_tupr = frg::tuple<int &, tracked &>;

void frgv_force(A_opt &o, A_opti &oi, A_var &v, A_box &b, A_tup &t, A_tupr &tr, valloc a, int x, const tracked &tk) {
	o.emplace(x);
	oi = o.has_value() ? A_opti(x) : A_opti(frg::null_opt);
	v.emplace<tracked>(x);
	(void)v.is<int>(); (void)v.is<tracked>(); (void)v.is<char>();
	(void)v.get<int>(); (void)v.get<tracked>(); (void)v.get<char>();
	A_var v2(x); A_var v3(tk); A_var v4('c');
	b.initialize(x);
	(void)t.get<0>(); (void)t.get<1>(); (void)t.get<2>();
	(void)tr.get<0>(); (void)tr.get<1>();
	auto p = frg::make_unique<tracked>(a, x);
	(void)(o == tk); (void)(o != tk);
	tracked *q = frg::construct<tracked>(a, x);
	frg::destruct(a, q);
	{ A_exp e1(err_t::fail); A_exp e2(tk); e1 = e2; e1 = A_exp(err_t::other); (void)e1.value(); (void)bool(e1); }
	tracked *qn = frg::construct_n<tracked>(a, size_t(3));
	frg::destruct_n(a, qn, size_t(3));
}
}
template class frg::optional<frgv::tracked>;
template class frg::optional<int>;
template struct frg::expected<frgv::err_t, frgv::tracked>;
template struct frg::expected<frgv::err_t, int>;
template struct frg::expected<frgv::err_t, void>;
template struct frg::variant<int, frgv::tracked, char>;
template class frg::manual_box<frgv::tracked>;
template struct frg::unique_ptr<frgv::tracked, frgv::valloc>;
template struct frg::unique_memory<frgv::valloc>;
