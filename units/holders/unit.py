UNIT = dict(
    name='holders',
    roots=['rec:opt', 'rec:opti', 'rec:exp', 'rec:expi', 'rec:expv', 'rec:var', 'rec:box', 'rec:uptr', 'rec:umem', 'rec:tup*',
           'fn:frgv::frgv_force', 'fn:frg::operator*'],
    defines=['FRGV_ZERO_RECORD_LOCALS'],
    auto_harness=dict(cls='P', serves=['C17', 'C16'], timeout=300),
    assumptions=['element type frgv::tracked: value + in-band lifetime flags (stubs/tracked_stubs.c); its operations do not fail',
                 'templates verified for optional<tracked>, expected<err_t,tracked>, variant<int,tracked,char>, manual_box<tracked>, tuple<int,tracked,char>, tuple<int&,tracked&>'],
)
