/* Contracts for the value holders (C17) - states and values follow the corresponding std:: types.
 * T = frgv::tracked (in-band lifetime state, see stubs/tracked_stubs.c): a holder "holds value x"
 * iff the object in its storage is live, self-consistent and has v == x; "holds nothing" iff the
 * storage holds no live object. */
#define TRK(p) ((struct frgv_tracked *)(p))
/* a C++ bool object only ever holds 0 or 1; CBMC's nondeterministic _Bool bytes must be told so */
#define B01(x) ((x) == 0 || (x) == 1)
#define LIVE(p) (TRK(p)->live == 1 && TRK(p)->self == TRK(p))
#define DEAD(p) (!TRK(p)->live)

/* ---------------------------------------------------------------- optional<tracked> */
#define OT(o) TRK((o)->_stor.buffer)
#define OPT_WF(o) (B01((o)->_non_null) && ((o)->_non_null ? LIVE(OT(o)) : DEAD(OT(o))))
#define OPT_FRESH(o) __CPROVER_is_fresh(o, sizeof(struct opt))
#define OBJ_FRESH(p) (__CPROVER_is_fresh(p, sizeof(struct frgv_tracked)) && LIVE(p))

void opt_ctor_default_contract(struct opt *this)
__CPROVER_requires(OPT_FRESH(this) && DEAD(OT(this)))
__CPROVER_assigns(__CPROVER_object_whole(this))
__CPROVER_ensures(!this->_non_null && DEAD(OT(this)));

void opt_ctor_0_contract(struct opt *this, struct frg_null_opt_type n)
__CPROVER_requires(OPT_FRESH(this) && DEAD(OT(this)))
__CPROVER_assigns(__CPROVER_object_whole(this))
__CPROVER_ensures(!this->_non_null && DEAD(OT(this)));

void opt_ctor_1_contract(struct opt *this, struct frgv_tracked *object)      /* optional(const T &) */
__CPROVER_requires(OPT_FRESH(this) && DEAD(OT(this)) && OBJ_FRESH(object))
__CPROVER_assigns(__CPROVER_object_whole(this))
__CPROVER_ensures(this->_non_null && LIVE(OT(this)) && OT(this)->v == object->v)
__CPROVER_ensures(LIVE(object) && object->v == __CPROVER_old(object->v));

void opt_ctor_2_contract(struct opt *this, struct frgv_tracked *object)      /* optional(T &&) */
__CPROVER_requires(OPT_FRESH(this) && DEAD(OT(this)) && OBJ_FRESH(object))
__CPROVER_assigns(__CPROVER_object_whole(this), object->v)
__CPROVER_ensures(this->_non_null && LIVE(OT(this)) && OT(this)->v == __CPROVER_old(object->v))
__CPROVER_ensures(LIVE(object));

void opt_ctor_copy_contract(struct opt *this, struct opt *other)
__CPROVER_requires(OPT_FRESH(this) && DEAD(OT(this)) && OPT_FRESH(other) && OPT_WF(other))
__CPROVER_assigns(__CPROVER_object_whole(this))
__CPROVER_ensures(this->_non_null == other->_non_null && OPT_WF(this) && OPT_WF(other))
__CPROVER_ensures(!this->_non_null || OT(this)->v == OT(other)->v)
__CPROVER_ensures(other->_non_null == __CPROVER_old(other->_non_null) && OT(other)->v == __CPROVER_old(OT(other)->v));

void opt_ctor_move_contract(struct opt *this, struct opt *other)
__CPROVER_requires(OPT_FRESH(this) && DEAD(OT(this)) && OPT_FRESH(other) && OPT_WF(other))
__CPROVER_assigns(__CPROVER_object_whole(this), OT(other)->v)
__CPROVER_ensures(this->_non_null == __CPROVER_old(other->_non_null) && OPT_WF(this) && OPT_WF(other))
__CPROVER_ensures(!this->_non_null || OT(this)->v == __CPROVER_old(OT(other)->v))
__CPROVER_ensures(other->_non_null == __CPROVER_old(other->_non_null));      /* source stays engaged, as std */

void opt_dtor_contract(struct opt *this)
__CPROVER_requires(OPT_FRESH(this) && OPT_WF(this))
__CPROVER_assigns(__CPROVER_object_whole(this))
__CPROVER_ensures(DEAD(OT(this)));

struct opt *opt_assign_copy_contract(struct opt *this, struct opt *other)
__CPROVER_requires(OPT_FRESH(this) && OPT_WF(this) && OPT_FRESH(other) && OPT_WF(other))
__CPROVER_assigns(__CPROVER_object_whole(this))
__CPROVER_ensures(__CPROVER_return_value == this)
__CPROVER_ensures(this->_non_null == other->_non_null && OPT_WF(this) && OPT_WF(other))
__CPROVER_ensures(!this->_non_null || OT(this)->v == OT(other)->v)
__CPROVER_ensures(other->_non_null == __CPROVER_old(other->_non_null) && OT(other)->v == __CPROVER_old(OT(other)->v));

struct opt *opt_assign_move_contract(struct opt *this, struct opt *other)
__CPROVER_requires(OPT_FRESH(this) && OPT_WF(this) && OPT_FRESH(other) && OPT_WF(other))
__CPROVER_assigns(__CPROVER_object_whole(this), OT(other)->v)
__CPROVER_ensures(__CPROVER_return_value == this)
__CPROVER_ensures(this->_non_null == __CPROVER_old(other->_non_null) && OPT_WF(this) && OPT_WF(other))
__CPROVER_ensures(!this->_non_null || OT(this)->v == __CPROVER_old(OT(other)->v))
__CPROVER_ensures(other->_non_null == __CPROVER_old(other->_non_null));

void opt_emplace__int_R_contract(struct opt *this, int *args)
__CPROVER_requires(OPT_FRESH(this) && OPT_WF(this) && __CPROVER_is_fresh(args, sizeof(int)))
__CPROVER_assigns(__CPROVER_object_whole(this))
__CPROVER_ensures(this->_non_null && LIVE(OT(this)) && OT(this)->v == *args);

_Bool opt_conv_bool_contract(struct opt *this)
__CPROVER_requires(OPT_FRESH(this) && OPT_WF(this)) __CPROVER_assigns()
__CPROVER_ensures(__CPROVER_return_value == this->_non_null);
_Bool opt_has_value_contract(struct opt *this)
__CPROVER_requires(OPT_FRESH(this) && OPT_WF(this)) __CPROVER_assigns()
__CPROVER_ensures(__CPROVER_return_value == this->_non_null);
#define OPT_ACCESSOR(fn) struct frgv_tracked *fn##_contract(struct opt *this) \
__CPROVER_requires(OPT_FRESH(this) && OPT_WF(this) && this->_non_null) __CPROVER_assigns() \
__CPROVER_ensures(__CPROVER_return_value == OT(this));
OPT_ACCESSOR(opt_op_star_0) OPT_ACCESSOR(opt_op_star_1) OPT_ACCESSOR(opt_op_arrow)
OPT_ACCESSOR(opt_value_0) OPT_ACCESSOR(opt_value_1) OPT_ACCESSOR(opt_value_2) OPT_ACCESSOR(opt_value_3)

/* ---------------------------------------------------------------- expected<err_t, tracked> */
#define ET(x) TRK((x)->stor_)
#define EXP_OK(x) ((x)->e_ == 0)
#define EXP_WF(x) (EXP_OK(x) ? LIVE(ET(x)) : DEAD(ET(x)))
#define EXP_FRESH(x) __CPROVER_is_fresh(x, sizeof(struct exp))

void exp_ctor_0_contract(struct exp *this, frgv_err_t e)                 /* expected(E) */
__CPROVER_requires(EXP_FRESH(this) && DEAD(ET(this)) && e != 0)
__CPROVER_assigns(__CPROVER_object_whole(this))
__CPROVER_ensures(this->e_ == e && DEAD(ET(this)));

void exp_ctor_1_contract(struct exp *this, struct frgv_tracked *val)     /* expected(T) (by-value argument owned by the caller) */
__CPROVER_requires(EXP_FRESH(this) && DEAD(ET(this)) && OBJ_FRESH(val))
__CPROVER_assigns(__CPROVER_object_whole(this), val->v)
__CPROVER_ensures(this->e_ == 0 && LIVE(ET(this)) && ET(this)->v == __CPROVER_old(val->v) && LIVE(val));

void exp_ctor_copy_contract(struct exp *this, struct exp *other)
__CPROVER_requires(EXP_FRESH(this) && DEAD(ET(this)) && EXP_FRESH(other) && EXP_WF(other))
__CPROVER_assigns(__CPROVER_object_whole(this))
__CPROVER_ensures(this->e_ == other->e_ && EXP_WF(this) && EXP_WF(other))
__CPROVER_ensures(!EXP_OK(this) || ET(this)->v == ET(other)->v)
__CPROVER_ensures(other->e_ == __CPROVER_old(other->e_) && ET(other)->v == __CPROVER_old(ET(other)->v));

void exp_ctor_move_contract(struct exp *this, struct exp *other)
__CPROVER_requires(EXP_FRESH(this) && DEAD(ET(this)) && EXP_FRESH(other) && EXP_WF(other))
__CPROVER_assigns(__CPROVER_object_whole(this), ET(other)->v)
__CPROVER_ensures(this->e_ == other->e_ && EXP_WF(this) && EXP_WF(other))
__CPROVER_ensures(!EXP_OK(this) || ET(this)->v == __CPROVER_old(ET(other)->v))
__CPROVER_ensures(other->e_ == __CPROVER_old(other->e_));

struct exp *exp_assign_copy_contract(struct exp *this, struct exp *other)
__CPROVER_requires(EXP_FRESH(this) && EXP_WF(this) && EXP_FRESH(other) && EXP_WF(other))
__CPROVER_assigns(__CPROVER_object_whole(this))
__CPROVER_ensures(__CPROVER_return_value == this)
__CPROVER_ensures(this->e_ == other->e_ && EXP_WF(this) && EXP_WF(other))
__CPROVER_ensures(!EXP_OK(this) || ET(this)->v == ET(other)->v)
__CPROVER_ensures(other->e_ == __CPROVER_old(other->e_) && ET(other)->v == __CPROVER_old(ET(other)->v));

struct exp *exp_assign_move_contract(struct exp *this, struct exp *other)
__CPROVER_requires(EXP_FRESH(this) && EXP_WF(this) && EXP_FRESH(other) && EXP_WF(other))
__CPROVER_assigns(__CPROVER_object_whole(this), ET(other)->v)
__CPROVER_ensures(__CPROVER_return_value == this)
__CPROVER_ensures(this->e_ == other->e_ && EXP_WF(this) && EXP_WF(other))
__CPROVER_ensures(!EXP_OK(this) || ET(this)->v == __CPROVER_old(ET(other)->v))
__CPROVER_ensures(other->e_ == __CPROVER_old(other->e_));

void exp_dtor_contract(struct exp *this)
__CPROVER_requires(EXP_FRESH(this) && EXP_WF(this))
__CPROVER_assigns(__CPROVER_object_whole(this))
__CPROVER_ensures(DEAD(ET(this)));

_Bool exp_conv_bool_contract(struct exp *this)
__CPROVER_requires(EXP_FRESH(this) && EXP_WF(this)) __CPROVER_assigns()
__CPROVER_ensures(__CPROVER_return_value == (this->e_ == 0));
frgv_err_t exp_error_contract(struct exp *this)
__CPROVER_requires(EXP_FRESH(this) && EXP_WF(this) && this->e_ != 0) __CPROVER_assigns()
__CPROVER_ensures(__CPROVER_return_value == this->e_);
frgv_err_t exp_maybe_error_contract(struct exp *this)
__CPROVER_requires(EXP_FRESH(this) && EXP_WF(this)) __CPROVER_assigns()
__CPROVER_ensures(__CPROVER_return_value == this->e_);
struct frgv_tracked *exp_value_0_contract(struct exp *this)
__CPROVER_requires(EXP_FRESH(this) && EXP_WF(this) && this->e_ == 0) __CPROVER_assigns()
__CPROVER_ensures(__CPROVER_return_value == ET(this));
struct frgv_tracked *exp_value_1_contract(struct exp *this)
__CPROVER_requires(EXP_FRESH(this) && EXP_WF(this) && this->e_ == 0) __CPROVER_assigns()
__CPROVER_ensures(__CPROVER_return_value == ET(this));
void exp_unwrap_contract(struct frgv_tracked *__ret, struct exp *this)
__CPROVER_requires(EXP_FRESH(this) && EXP_WF(this) && this->e_ == 0 && __CPROVER_is_fresh(__ret, sizeof(*__ret)) && DEAD(__ret))
__CPROVER_assigns(__CPROVER_object_whole(__ret), ET(this)->v)
__CPROVER_ensures(LIVE(__ret) && __ret->v == __CPROVER_old(ET(this)->v) && EXP_WF(this) && this->e_ == 0);

/* ---------------------------------------------------------------- variant<int, tracked, char> */
#define VINV ((unsigned long)-1)
#define VS(x) ((x)->storage_.buffer)
#define VAR_FRESH(x) __CPROVER_is_fresh(x, sizeof(struct var))
/* alternative 1 is the tracked one: it is the only alternative with lifetime bookkeeping */
#define VAR_WF(x) (((x)->tag_ == VINV || (x)->tag_ <= 2) && ((x)->tag_ == 1 ? LIVE(VS(x)) : DEAD(VS(x))))
#define VAR_SAME_VALUE(a, tag, b) ((tag) == 0 ? *(int *)VS(a) == *(int *)VS(b) : (tag) == 1 ? TRK(VS(a))->v == TRK(VS(b))->v : \
                                   (tag) == 2 ? *(char *)VS(a) == *(char *)VS(b) : 1)

void var_ctor_default_contract(struct var *this)
__CPROVER_requires(VAR_FRESH(this) && DEAD(VS(this)))
__CPROVER_assigns(__CPROVER_object_whole(this))
__CPROVER_ensures(this->tag_ == VINV && DEAD(VS(this)));

void var_ctor__int_0_contract(struct var *this, int object)
__CPROVER_requires(VAR_FRESH(this) && DEAD(VS(this)))
__CPROVER_assigns(__CPROVER_object_whole(this))
__CPROVER_ensures(this->tag_ == 0 && *(int *)VS(this) == object);

void var_ctor__char_2_contract(struct var *this, char object)
__CPROVER_requires(VAR_FRESH(this) && DEAD(VS(this)))
__CPROVER_assigns(__CPROVER_object_whole(this))
__CPROVER_ensures(this->tag_ == 2 && *(char *)VS(this) == object);

void var_ctor__frgv_tracked_1_contract(struct var *this, struct frgv_tracked *object)
__CPROVER_requires(VAR_FRESH(this) && DEAD(VS(this)) && OBJ_FRESH(object))
__CPROVER_assigns(__CPROVER_object_whole(this), object->v)
__CPROVER_ensures(this->tag_ == 1 && LIVE(VS(this)) && TRK(VS(this))->v == __CPROVER_old(object->v) && LIVE(object));

void var_ctor_copy_contract(struct var *this, struct var *other)
__CPROVER_requires(VAR_FRESH(this) && DEAD(VS(this)) && VAR_FRESH(other) && VAR_WF(other))
__CPROVER_assigns(__CPROVER_object_whole(this))
__CPROVER_ensures(this->tag_ == other->tag_ && VAR_WF(this) && VAR_WF(other) && VAR_SAME_VALUE(this, this->tag_, other))
__CPROVER_ensures(other->tag_ == __CPROVER_old(other->tag_));

void var_ctor_move_contract(struct var *this, struct var *other)
__CPROVER_requires(VAR_FRESH(this) && DEAD(VS(this)) && VAR_FRESH(other) && VAR_WF(other))
__CPROVER_assigns(__CPROVER_object_whole(this), TRK(VS(other))->v)
__CPROVER_ensures(this->tag_ == other->tag_ && VAR_WF(this) && VAR_WF(other))
__CPROVER_ensures(this->tag_ != 0 || *(int *)VS(this) == *(int *)VS(other))
__CPROVER_ensures(this->tag_ != 1 || TRK(VS(this))->v == __CPROVER_old(TRK(VS(other))->v))
__CPROVER_ensures(this->tag_ != 2 || *(char *)VS(this) == *(char *)VS(other))
__CPROVER_ensures(other->tag_ == __CPROVER_old(other->tag_));

void var_dtor_contract(struct var *this)
__CPROVER_requires(VAR_FRESH(this) && VAR_WF(this))
__CPROVER_assigns(__CPROVER_object_whole(this))
__CPROVER_ensures(DEAD(VS(this)));

/* operator=(variant other): 'other' is the by-value parameter, owned and later destroyed by the caller.
 * Every (destination tag) x (source tag) pair, including empty <- empty. */
struct var *var_assign_contract(struct var *this, struct var *other)
__CPROVER_requires(VAR_FRESH(this) && VAR_WF(this) && VAR_FRESH(other) && VAR_WF(other))
__CPROVER_assigns(__CPROVER_object_whole(this), TRK(VS(other))->v)
__CPROVER_ensures(__CPROVER_return_value == this)
__CPROVER_ensures(this->tag_ == other->tag_ && VAR_WF(this) && VAR_WF(other))
__CPROVER_ensures(this->tag_ != 0 || *(int *)VS(this) == *(int *)VS(other))
__CPROVER_ensures(this->tag_ != 1 || TRK(VS(this))->v == __CPROVER_old(TRK(VS(other))->v))
__CPROVER_ensures(this->tag_ != 2 || *(char *)VS(this) == *(char *)VS(other))
__CPROVER_ensures(other->tag_ == __CPROVER_old(other->tag_));

void var_emplace__frgv_tracked_1_int_R_contract(struct var *this, int *args)
__CPROVER_requires(VAR_FRESH(this) && VAR_WF(this) && __CPROVER_is_fresh(args, sizeof(int)))
__CPROVER_assigns(__CPROVER_object_whole(this))
__CPROVER_ensures(this->tag_ == 1 && LIVE(VS(this)) && TRK(VS(this))->v == *args);

_Bool var_conv_bool_contract(struct var *this)
__CPROVER_requires(VAR_FRESH(this) && VAR_WF(this)) __CPROVER_assigns()
__CPROVER_ensures(__CPROVER_return_value == (this->tag_ != VINV));
size_t var_tag_contract(struct var *this)
__CPROVER_requires(VAR_FRESH(this) && VAR_WF(this)) __CPROVER_assigns()
__CPROVER_ensures(__CPROVER_return_value == this->tag_);
#define VAR_IS(fn, k) _Bool fn##_contract(struct var *this) \
__CPROVER_requires(VAR_FRESH(this) && VAR_WF(this)) __CPROVER_assigns() __CPROVER_ensures(__CPROVER_return_value == (this->tag_ == (k)));
VAR_IS(var_is__int_0, 0) VAR_IS(var_is__frgv_tracked_1, 1) VAR_IS(var_is__char_2, 2)
int *var_get__int_0_contract(struct var *this)
__CPROVER_requires(VAR_FRESH(this) && VAR_WF(this) && this->tag_ == 0) __CPROVER_assigns()
__CPROVER_ensures(__CPROVER_return_value == (int *)VS(this));
struct frgv_tracked *var_get__frgv_tracked_1_contract(struct var *this)
__CPROVER_requires(VAR_FRESH(this) && VAR_WF(this) && this->tag_ == 1) __CPROVER_assigns()
__CPROVER_ensures(__CPROVER_return_value == TRK(VS(this)));
char *var_get__char_2_contract(struct var *this)
__CPROVER_requires(VAR_FRESH(this) && VAR_WF(this) && this->tag_ == 2) __CPROVER_assigns()
__CPROVER_ensures(__CPROVER_return_value == (char *)VS(this));

/* ---------------------------------------------------------------- manual_box<tracked> */
#define BT(b) TRK((b)->_storage.buffer)
#define BOX_WF(b) (B01((b)->_initialized) && ((b)->_initialized ? LIVE(BT(b)) : DEAD(BT(b))))
#define BOX_FRESH(b) __CPROVER_is_fresh(b, sizeof(struct box))
void box_ctor_default_contract(struct box *this)
__CPROVER_requires(BOX_FRESH(this) && DEAD(BT(this)))
__CPROVER_assigns(__CPROVER_object_whole(this))
__CPROVER_ensures(!this->_initialized && DEAD(BT(this)));
void box_initialize__int_R_contract(struct box *this, int *args)
__CPROVER_requires(BOX_FRESH(this) && BOX_WF(this) && !this->_initialized && __CPROVER_is_fresh(args, sizeof(int)))
__CPROVER_assigns(__CPROVER_object_whole(this))
__CPROVER_ensures(this->_initialized && LIVE(BT(this)) && BT(this)->v == *args);
void box_destruct_contract(struct box *this)
__CPROVER_requires(BOX_FRESH(this) && BOX_WF(this) && this->_initialized)
__CPROVER_assigns(__CPROVER_object_whole(this))
__CPROVER_ensures(!this->_initialized && DEAD(BT(this)));
struct frgv_tracked *box_get_contract(struct box *this)
__CPROVER_requires(BOX_FRESH(this) && BOX_WF(this) && this->_initialized) __CPROVER_assigns()
__CPROVER_ensures(__CPROVER_return_value == BT(this));
_Bool box_valid_contract(struct box *this)
__CPROVER_requires(BOX_FRESH(this) && BOX_WF(this)) __CPROVER_assigns()
__CPROVER_ensures(__CPROVER_return_value == this->_initialized);
_Bool box_conv_bool_contract(struct box *this)
__CPROVER_requires(BOX_FRESH(this) && BOX_WF(this)) __CPROVER_assigns()
__CPROVER_ensures(__CPROVER_return_value == this->_initialized);

/* ---------------------------------------------------------------- tuple<int, tracked, char>, tuple<int &, tracked &> */
int *tup_get__0_contract(struct tup *this) __CPROVER_requires(__CPROVER_is_fresh(this, sizeof(*this))) __CPROVER_assigns()
__CPROVER_ensures(__CPROVER_return_value == &this->_stor.item);
struct frgv_tracked *tup_get__1_contract(struct tup *this) __CPROVER_requires(__CPROVER_is_fresh(this, sizeof(*this))) __CPROVER_assigns()
__CPROVER_ensures(__CPROVER_return_value == &this->_stor.tail.item);
char *tup_get__2_contract(struct tup *this) __CPROVER_requires(__CPROVER_is_fresh(this, sizeof(*this))) __CPROVER_assigns()
__CPROVER_ensures(__CPROVER_return_value == &this->_stor.tail.tail.item);
int *tupr_get__0_contract(struct tupr *this) __CPROVER_requires(__CPROVER_is_fresh(this, sizeof(*this))) __CPROVER_assigns()
__CPROVER_ensures(__CPROVER_return_value == this->_stor.item);                 /* reference member aliases its referent */
struct frgv_tracked *tupr_get__1_contract(struct tupr *this) __CPROVER_requires(__CPROVER_is_fresh(this, sizeof(*this))) __CPROVER_assigns()
__CPROVER_ensures(__CPROVER_return_value == this->_stor.tail.item);
