UNIT = dict(
    name='qs',
    roots=['rec:qs*', 'rec:qlg'],
    clang_flags=['-fno-access-control'],
    first_includes=['hooks.h'],
    lower_opts=dict(access_hooks=['qsn', 'qsh', 'qsd']),
    sources=['harness.c'],
    assumptions=['schedules are covered at whole-operation granularity only: each agent operation runs without another agent interleaving inside it; the happens-before part is carried by a per-access order/guarded-by discipline (a sufficient condition), not by exploring weak-memory executions',
                 '3 agents and 2 barrier nodes (any state of them, any history); counters below 2^62',
                 'usage: online() only when offline, offline()/quiescent_state()/await_barrier() only when online, await_barrier() only with an idle node',
                 'mutex type: any correct mutex (lock/unlock stub with a held flag)'],
)
OPS = {1: 'online', 2: 'offline', 3: 'quiescent_state', 4: 'await_barrier', 5: 'run'}
def obligations(tier):
    obs = [dict(id='qs.init', entry='h_qs_init', cls='P', serves=['C11'], unwind=6, function='qsa_ctor', timeout=300)]
    for op, nm in OPS.items():
        obs.append(dict(id='qs.step.%s' % nm, entry='h_qs_step', cls='P', serves=['C11'], unwind=6, defines=['QS_OP=%d' % op], function='qsa_%s' % nm, timeout=1200))
    obs.append(dict(id='qs.progress.round', entry='h_qs_round', cls='P', serves=['C11'], unwind=7, function='qsa_quiescent_state', timeout=2400))
    obs.append(dict(id='qs.progress.fire', entry='h_qs_fire', cls='P', serves=['C11'], unwind=6, function='qsa_run', timeout=1200))
    obs.append(dict(id='qs.barrier_solo', entry='h_qs_barrier_solo', cls='P', serves=['C11'], unwind=6, function='qsa_quiescent_barrier', timeout=1200))
    return obs
