// Instantiation TU: quiescent-state domain (C11, C12 lock_guard).
#include <frg/qs.hpp>
namespace frgv {
struct vmutex {
	void lock();
	void unlock();
};
using A_qsd = frg::qs_domain<vmutex>;
using A_qsa = frg::qs_agent<vmutex>;
using A_qsn = frg::qs_node;
using A_qlg = frg::lock_guard<vmutex>;
using A_qsl = decltype(A_qsa::_pending);
using A_qsh = frg::default_list_hook<frg::qs_node>;
using A_qsli = A_qsl::iterator;
}
template struct frg::qs_domain<frgv::vmutex>;
template struct frg::qs_agent<frgv::vmutex>;
template struct frg::lock_guard<frgv::vmutex>;
