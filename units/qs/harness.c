/* quiescent-state domain harnesses (C11).
 *
 * The proof is an invariant proof: INV (below) is a predicate over the domain, NA agents and NN barrier nodes plus ghost
 * state (who is online, who still owes a quiescent state to which pending barrier).  h_qs_init shows the constructors
 * establish INV; h_qs_step shows that EVERY operation of EVERY agent, started in ANY state satisfying INV, ends in a state
 * satisfying INV -- so INV holds after every history (unbounded), for NA agents and NN nodes, at whole-operation granularity.
 * The callback stub carries the property: it may run only inside the registering agent's run(), once, and only when no agent
 * that was online at registration still owes a quiescent state.  h_qs_progress shows bounded progress from any INV state.
 */
unsigned frgv_assert_hook_hits;
#define FRGV_CANARY() __CPROVER_assert(0, "canary: end of harness reachable")
unsigned long nondet_ulong(void);
unsigned nondet_uint(void);
#ifndef NA
#define NA 3
#endif
#define NN 2
#define B01(x) ((x) == 0 || (x) == 1)

static struct qsd D;
static struct qsa A[NA];
static struct qsn N0, N1;
#define NODE(k) ((k) == 0 ? &N0 : &N1)

/* ---- ghost state ---------------------------------------------------------------------------------------------------- */
static _Bool g_on[NA];              /* agent is online */
static int g_nstate[NN];            /* 0 idle (owned by the user), 1 pending (owned by the library), 2 callback started: the library must not touch it */
static int g_owner[NN];             /* registering agent */
static unsigned long g_target[NN];  /* ghost copy of the target period */
static _Bool g_need[NN][NA];        /* agent was online at registration and has not been in quiescent_state()/offline() since */
static int g_seq[NA][NN], g_len[NA];/* expected contents of each agent's pending list, in order */
static _Bool g_held;                /* the domain mutex */
static int g_op, g_agent;           /* operation in progress: 1 online 2 offline 3 quiescent_state 4 await_barrier 5 run 6 quiescent_barrier */
static int g_fired;
static int g_barrier_loads;

/* ---- mutex stub: any correct mutex; the obligations are the discipline of its user ------------------------------------ */
void frgv_vmutex_lock(struct frgv_vmutex *this)
{
	__CPROVER_assert(this == &D._mutex, "the domain mutex is the one locked");
	__CPROVER_assert(!g_held, "lock() while this agent already holds the domain mutex (blocks forever)");
	g_held = 1;
}
void frgv_vmutex_unlock(struct frgv_vmutex *this)
{
	__CPROVER_assert(g_held, "unlock() of a mutex that is not held");
	g_held = 0;
}

/* ---- site names --------------------------------------------------------------------------------------------------------- */
enum { S_ONLINE = 1, S_OFFLINE, S_QS, S_BARRIER, S_AWAIT, S_RUN };
static int site_of(const char *fn)
{
	/* qsa_online qsa_offline qsa_quiescent_state qsa_quiescent_barrier qsa_await_barrier qsa_run */
	if (fn[0] == 'q' && fn[1] == 's' && fn[2] == 'a' && fn[3] == '_') {
		if (fn[4] == 'o') return fn[5] == 'n' ? S_ONLINE : S_OFFLINE;
		if (fn[4] == 'q') return fn[14] == 's' ? S_QS : S_BARRIER;
		if (fn[4] == 'a') return S_AWAIT;
		if (fn[4] == 'r') return S_RUN;
	}
	__CPROVER_assert(0, "extraction: atomic access in an unknown function (site table of the qs harness is out of date)");
	return 0;
}
#define ACQ(o) ((o) == FRGV_MEMORY_ORDER_ACQUIRE || (o) == FRGV_MEMORY_ORDER_ACQ_REL || (o) == FRGV_MEMORY_ORDER_SEQ_CST || (o) == FRGV_MEMORY_ORDER_CONSUME)
#define REL(o) ((o) == FRGV_MEMORY_ORDER_RELEASE || (o) == FRGV_MEMORY_ORDER_ACQ_REL || (o) == FRGV_MEMORY_ORDER_SEQ_CST)

/* ---- memory-order / guarded-by discipline (sufficient condition for the happens-before part of the property) -----------
 * chain: what agent X did before its ack  -sequenced-  X's ack RMW on _agents_to_ack (release)  -release sequence of the other
 * acks-  the last acker's RMW (acquire)  -sequenced-  its release store of _qs_counter (under the mutex, or deferred and done
 * later by the same agent)  -synchronises with-  the acquire load of _qs_counter that lets run()/quiescent_barrier() go on. */
void qs_hook_load(void *p, int order, const char *fn)
{
	int s = site_of(fn);
	if (p == (void *)&D._qs_counter) {
		if (s == S_RUN)
			__CPROVER_assert(ACQ(order), "order: run() reads the period counter that releases callbacks with at least acquire");
		if (s == S_ONLINE || s == S_OFFLINE)
			__CPROVER_assert(g_held, "guarded-by: online()/offline() read the period counter inside the critical section in which they change the agent count (the period cannot close in between)");
		if (s == S_BARRIER) {
			/* the first read computes the target; every later one decides whether quiescent_barrier() may return */
			if (g_barrier_loads++ > 0)
				__CPROVER_assert(ACQ(order), "order: quiescent_barrier() reads the period counter that lets it return with at least acquire");
		}
		if (s == S_QS && !A[g_agent]._qs_deferred)
			__CPROVER_assert(ACQ(order), "order: quiescent_state() reads the period counter with at least acquire before acking");
	}
}
void qs_hook_store(void *p, unsigned long v, int order, const char *fn)
{
	site_of(fn);
	if (p == (void *)&D._qs_counter) {
		__CPROVER_assert(g_held, "guarded-by: the period counter is advanced only with the domain mutex held");
		__CPROVER_assert(REL(order), "order: the period counter is advanced with at least release");
		__CPROVER_assert(v == D._qs_counter + 1, "the period counter only ever advances by one");
	}
	if (p == (void *)&D._agents_to_ack)
		__CPROVER_assert(g_held, "guarded-by: the ack count is reset only with the domain mutex held");
}
void qs_hook_rmw(void *p, int order, const char *fn)
{
	site_of(fn);
	if (p == (void *)&D._agents_to_ack)
		__CPROVER_assert(ACQ(order) && REL(order), "order: an ack (fetch_sub on the ack count) is acq_rel: it publishes the agent's past and, for the last acker, acquires everyone else's");
	if (p == (void *)&D._desired_qs_counter)
		__CPROVER_assert(D._desired_qs_counter <= *(unsigned long *)p, "the desired period only grows");
}
/* plain accesses through domain / node / list-hook pointers */
void qs_access(void *a, size_t n)
{
	if (a == (void *)&D._num_agents)
		__CPROVER_assert(g_held, "guarded-by: the agent count is accessed only with the domain mutex held");
	for (int k = 0; k < NN; k++)
		if (__CPROVER_same_object(a, NODE(k)))
			__CPROVER_assert(g_nstate[k] != 2, "the library touches a barrier node after its callback has started (the callback may free or reuse it)");
}

/* ---- the callback: this is where the property is stated ---------------------------------------------------------------- */
static void qs_cb(struct qsn *node)
{
	int k = node == &N0 ? 0 : 1;
	__CPROVER_assert(node == &N0 || node == &N1, "callback receives the registered node");
	__CPROVER_assert(g_nstate[k] == 1, "a callback runs at most once per registration (and only for a registered node)");
	__CPROVER_assert(g_op == 5 && g_agent == g_owner[k], "a callback is invoked only by the registering agent's run()");
	for (int b = 0; b < NA; b++)
		__CPROVER_assert(!g_need[k][b], "grace period: every agent online at registration has been in quiescent_state() or offline() since");
	__CPROVER_assert(!g_held, "callbacks run without the domain mutex");
	g_nstate[k] = 2; g_fired++;
	/* bookkeeping of the expected list: it is the front element */
	int a = g_owner[k];
	__CPROVER_assert(g_len[a] > 0 && g_seq[a][0] == k, "callbacks fire in registration order");
	g_seq[a][0] = g_seq[a][1]; g_len[a]--;
}

/* ---- INV ------------------------------------------------------------------------------------------------------------------ */
#define LIM (1UL << 62)
static _Bool inv_domain(void)
{
	unsigned long c = D._qs_counter;
	if (!(c >= 1 && c < LIM && D._desired_qs_counter < LIM)) return 0;
	unsigned n = 0, owe = 0, ndef = 0;
	for (int a = 0; a < NA; a++) {
		if (!B01(A[a]._qs_deferred) || !B01(g_on[a])) return 0;
		if (A[a]._dom != &D) return 0;
		if (g_on[a] != (A[a]._acked_qs_counter != 0)) return 0;
		if (g_on[a]) {
			n++;
			if (!(A[a]._acked_qs_counter == c || A[a]._acked_qs_counter + 1 == c)) return 0;
			if (A[a]._acked_qs_counter + 1 == c) owe++;
			if (A[a]._qs_deferred) { ndef++; if (A[a]._acked_qs_counter != c) return 0; }
		} else if (A[a]._qs_deferred) return 0;
	}
	if (D._num_agents != n || D._agents_to_ack != owe) return 0;
	if (ndef > 1 || (ndef == 1 && owe != 0)) return 0;
	/* a period is open (someone owes an ack) or deferred by exactly one agent, unless nobody is online */
	if (n > 0 && owe == 0 && ndef == 0) return 0;
	if (n > 0 && c < 2) return 0;
	if (g_held) return 0;
	return 1;
}
static _Bool inv_nodes(void)
{
	unsigned long c = D._qs_counter;
	for (int k = 0; k < NN; k++) {
		struct qsn *nd = NODE(k);
		if (g_nstate[k] == 1) {
			unsigned long t = nd->_target_qs_counter;
			if (!(t == g_target[k] && t >= 3 && t <= c + 2 && D._desired_qs_counter >= t)) return 0;
			if (!(g_owner[k] >= 0 && g_owner[k] < NA)) return 0;
			for (int b = 0; b < NA; b++) {
				if (!B01(g_need[k][b])) return 0;
				/* the key fact: an agent that still owes this barrier a quiescent state has not acked period t-1 */
				if (g_need[k][b] && !(g_on[b] && A[b]._acked_qs_counter + 2 <= t)) return 0;
			}
		} else if (g_nstate[k] == 0) {
			if (nd->_target_qs_counter != 0 || nd->_queue_node.in_list || nd->_queue_node.next || nd->_queue_node.previous) return 0;
		} else if (g_nstate[k] != 2) return 0;
	}
	return 1;
}
static _Bool inv_lists(void)
{
	for (int a = 0; a < NA; a++) {
		int m = 0;
		for (int k = 0; k < NN; k++) if (g_nstate[k] == 1 && g_owner[k] == a) m++;
		if (g_len[a] != m) return 0;
		struct qsl *l = &A[a]._pending;
		if (m == 0) { if (l->_front || l->_back) return 0; }
		else if (m == 1) {
			int k = g_seq[a][0];
			if (!(k >= 0 && k < NN && g_nstate[k] == 1 && g_owner[k] == a)) return 0;
			struct qsn *x = NODE(k);
			if (!(l->_front == x && l->_back == x && x->_queue_node.in_list == 1 && !x->_queue_node.next && !x->_queue_node.previous)) return 0;
		} else {
			int k0 = g_seq[a][0], k1 = g_seq[a][1];
			if (!(k0 >= 0 && k0 < NN && k1 == 1 - k0)) return 0;
			struct qsn *x = NODE(k0), *y = NODE(k1);
			if (!(l->_front == x && l->_back == y && x->_queue_node.in_list == 1 && y->_queue_node.in_list == 1
			      && x->_queue_node.next == y && !x->_queue_node.previous && y->_queue_node.previous == x && !y->_queue_node.next)) return 0;
			/* FIFO with non-decreasing targets (the counter never decreases) */
			if (x->_target_qs_counter > y->_target_qs_counter) return 0;
		}
	}
	return 1;
}
#define INV() (inv_domain() && inv_nodes() && inv_lists())

/* ---- an arbitrary state: everything the invariant talks about is nondeterministic ----------------------------------------- */
static void any_state(void)
{
	D._qs_counter = nondet_ulong(); D._desired_qs_counter = nondet_ulong(); D._num_agents = nondet_uint(); D._agents_to_ack = nondet_uint();
	for (int a = 0; a < NA; a++) {
		A[a]._dom = &D; A[a]._acked_qs_counter = nondet_ulong(); A[a]._qs_deferred = nondet_uint() & 1; g_on[a] = nondet_uint() & 1;
		A[a]._pending._front = A[a]._pending._back = 0; g_len[a] = 0;
	}
	int first = nondet_uint() & 1;
	for (int j = 0; j < NN; j++) {
		int k = j == 0 ? first : 1 - first;
		struct qsn *nd = NODE(k);
		nd->on_grace_period = qs_cb; nd->_target_qs_counter = 0; nd->_queue_node.next = nd->_queue_node.previous = 0; nd->_queue_node.in_list = 0;
		g_nstate[k] = nondet_uint() & 1; g_owner[k] = 0; g_target[k] = 0;
		for (int b = 0; b < NA; b++) g_need[k][b] = 0;
		if (g_nstate[k] == 1) {
			int a = (int)(nondet_uint() % NA);
			g_owner[k] = a; g_target[k] = nondet_ulong(); nd->_target_qs_counter = g_target[k];
			for (int b = 0; b < NA; b++) g_need[k][b] = nondet_uint() & 1;
			/* link it at the back of the owner's list (plain writes: this is state construction, not library code) */
			struct qsl *l = &A[a]._pending;
			if (!l->_back) l->_front = nd; else { nd->_queue_node.previous = l->_back; l->_back->_queue_node.next = nd; }
			l->_back = nd; nd->_queue_node.in_list = 1;
			g_seq[a][g_len[a]++] = k;
		}
	}
	g_held = 0; g_fired = 0;
}

/* ---- one operation, with the ghost updates that define the property's vocabulary ------------------------------------------ */
static void do_op(int a, int op, int k)
{
	g_agent = a; g_op = op;
	if (op == 1) {            /* online (usage: the agent is offline) */
		qsa_online(&A[a]); g_on[a] = 1;
	} else if (op == 2) {     /* offline (usage: the agent is online) */
		qsa_offline(&A[a]); g_on[a] = 0;
		for (int j = 0; j < NN; j++) g_need[j][a] = 0;
	} else if (op == 3) {     /* quiescent_state: the agent has now been inside it */
		for (int j = 0; j < NN; j++) g_need[j][a] = 0;
		qsa_quiescent_state(&A[a]);
	} else if (op == 4) {     /* await_barrier(node k) (usage: node idle, agent online) */
		for (int b = 0; b < NA; b++) g_need[k][b] = g_on[b];
		g_owner[k] = a; g_nstate[k] = 1; g_seq[a][g_len[a]++] = k;
		qsa_await_barrier(&A[a], NODE(k));
		g_target[k] = NODE(k)->_target_qs_counter;
	} else if (op == 5) {     /* run */
		qsa_run(&A[a]);
	}
	g_op = 0;
	__CPROVER_assert(!g_held, "every operation releases the domain mutex before it returns");
}
static _Bool usage_ok(int a, int op, int k)
{
	if (op == 1) return !g_on[a];
	if (op == 2 || op == 3) return g_on[a];
	if (op == 4) return g_on[a] && g_nstate[k] == 0;
	return op == 5;
}

/* C11, class P: constructors establish INV */
void h_qs_init(void)
{
	qsd_ctor_default(&D);
	qsn_ctor_default(&N0); qsn_ctor_default(&N1); N0.on_grace_period = qs_cb; N1.on_grace_period = qs_cb;
	for (int a = 0; a < NA; a++) { g_agent = a; g_op = 1; qsa_ctor(&A[a], &D); g_on[a] = 1; g_len[a] = 0; }
	g_op = 0;
	__CPROVER_assert(INV(), "INV holds after the domain and NA agents are constructed");
	FRGV_CANARY();
}

/* C11, class P: every operation preserves INV, from every state that satisfies it */
void h_qs_step(void)
{
	any_state();
	__CPROVER_assume(INV());
	__CPROVER_assume(D._qs_counter < LIM - 8 && D._desired_qs_counter < LIM - 8);   /* ASSUMED: the 64-bit period counter does not wrap */
	int a = (int)(nondet_uint() % NA), op = 1 + (int)(nondet_uint() % 5), k = (int)(nondet_uint() & 1);
#ifdef QS_OP
	__CPROVER_assume(op == QS_OP);
#endif
	__CPROVER_assume(usage_ok(a, op, k));
	unsigned long c0 = D._qs_counter, d0 = D._desired_qs_counter;
	do_op(a, op, k);
	__CPROVER_assert(D._qs_counter >= c0 && D._qs_counter <= c0 + 1 && D._desired_qs_counter >= d0, "the period counter advances by at most one per operation and neither it nor the desired period ever decreases");
	if (op == 4) __CPROVER_assert(g_target[k] == c0 + 2 && D._qs_counter == c0, "await_barrier targets the period after next");
	__CPROVER_assert(inv_domain(), "INV (domain counters, ack count, deferral) is preserved by every operation");
	__CPROVER_assert(inv_nodes(), "INV (targets and owed quiescent states of pending barriers) is preserved by every operation");
	__CPROVER_assert(inv_lists(), "INV (pending lists hold exactly the pending barriers, in order) is preserved by every operation");
	FRGV_CANARY();
}

/* C11 progress, class P, as two lemmas over INV states (composition: a pending barrier has target t <= c + 2 and desired >= t by
 * INV; counter and desired never decrease (h_qs_step); while c < t every fair round advances c (lemma A); so after at most two
 * fair rounds c >= t, and then the owner's run() fires it (lemma B)). */
static const int perm3[6][3] = {{0,1,2},{0,2,1},{1,0,2},{1,2,0},{2,0,1},{2,1,0}};
void h_qs_round(void)
{
	any_state();
	__CPROVER_assume(INV());
	__CPROVER_assume(D._qs_counter < LIM - 8 && D._desired_qs_counter < LIM - 8);
	unsigned long c0 = D._qs_counter;
	__CPROVER_assume(D._num_agents > 0 && D._desired_qs_counter > c0);      /* somebody is online and a later period is desired */
	int pi = (int)(nondet_uint() % 6);
	for (int i = 0; i < NA; i++) {
		int a = NA == 3 ? perm3[pi][i] : (pi & 1 ? NA - 1 - i : i);
		if (g_on[a]) do_op(a, 3, 0);
	}
	__CPROVER_assert(D._qs_counter >= c0 + 1, "progress (lemma A): a fair round of quiescent states (every online agent once, any order) advances the period counter while a later period is desired: no grace period is lost, no deferred period is left waiting");
	__CPROVER_assert(INV(), "INV after a fair round");
	FRGV_CANARY();
}
void h_qs_fire(void)
{
	any_state();
	__CPROVER_assume(INV());
	__CPROVER_assume(D._qs_counter < LIM - 8 && D._desired_qs_counter < LIM - 8);
	int k = (int)(nondet_uint() & 1);
	__CPROVER_assume(g_nstate[k] == 1 && D._qs_counter >= NODE(k)->_target_qs_counter);
	do_op(g_owner[k], 5, 0);
	__CPROVER_assert(g_nstate[k] == 2, "progress (lemma B): once the counter reached a barrier's target, the registering agent's run() invokes its callback");
	FRGV_CANARY();
}

/* quiescent_barrier(): its loop is "quiescent_state() until the counter reached entry value + 2": each iteration is an operation
 * covered by h_qs_step, the exit condition is the acquire load covered by the order discipline. What is left is that it returns at
 * all. Sequentially that can be shown only when no other agent owes an ack, i.e. for the only online agent (class P, any INV state
 * with one agent online; the loop bound is checked by an unwinding assertion, so the result is complete for that case). With other
 * agents online it waits for them (lemma A: one fair round per period). */
void h_qs_barrier_solo(void)
{
	any_state();
	__CPROVER_assume(INV());
	__CPROVER_assume(D._qs_counter < LIM - 8 && D._desired_qs_counter < LIM - 8);
	int a = (int)(nondet_uint() % NA);
	__CPROVER_assume(g_on[a] && D._num_agents == 1);
	unsigned long c0 = D._qs_counter;
	g_agent = a; g_op = 6; g_barrier_loads = 0;
	for (int j = 0; j < NN; j++) g_need[j][a] = 0;          /* it reports quiescent states itself */
	qsa_quiescent_barrier(&A[a]);
	g_op = 0;
	__CPROVER_assert(D._qs_counter >= c0 + 2, "quiescent_barrier returns only after two period advances (the same condition as a callback)");
	__CPROVER_assert(INV() && !g_held, "INV after quiescent_barrier");
	FRGV_CANARY();
}
