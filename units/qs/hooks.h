/* qs unit: every atomic access and every access through a domain / node / list-hook pointer reports to the harness.
 * __func__ names the lowered function the access sits in (the site), so that orders can be required per role. */
#ifndef FRGV_QS_HOOKS_H
#define FRGV_QS_HOOKS_H
#include <stddef.h>
void qs_hook_load(void *p, int order, const char *fn);
void qs_hook_store(void *p, unsigned long v, int order, const char *fn);
void qs_hook_rmw(void *p, int order, const char *fn);
void qs_access(void *a, size_t n);
#define FRGV_ATOMIC_HOOK_LOAD(p, o) qs_hook_load((void *)(p), (o), __func__)
#define FRGV_ATOMIC_HOOK_STORE(p, v, o) qs_hook_store((void *)(p), (unsigned long)(v), (o), __func__)
#define FRGV_ATOMIC_HOOK_RMW(p, o) qs_hook_rmw((void *)(p), (o), __func__)
#define FRGV_ACCESS_HOOK(a, n) qs_access((a), (n))
#endif
