/* radix unit: atomic accesses report to the harness (C10 publication discipline); __func__ names the lowered function (the site). */
#ifndef FRGV_RADIX_HOOKS_H
#define FRGV_RADIX_HOOKS_H
void rt_hook_load(void *p, int order, const char *fn);
void rt_hook_store(void *p, const void *vp, unsigned long size, int order, const char *fn);
void rt_hook_stored(void *p, int order, const char *fn);
#define FRGV_ATOMIC_HOOK_LOAD(p, o) rt_hook_load((void *)(p), (o), __func__)
#define FRGV_ATOMIC_HOOK_STORE(p, v, o) rt_hook_store((void *)(p), (const void *)&(v), sizeof(v), (o), __func__)
#define FRGV_ATOMIC_HOOK_STORED(p, o) rt_hook_stored((void *)(p), (o), __func__)
#endif
