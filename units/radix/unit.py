import itertools
UNIT = dict(
    name='radix',
    roots=['rec:rt*', 'fn:frgv::frgv_force'],
    defines=['FRGV_ZERO_RECORD_LOCALS'],
    first_includes=['hooks.h'],
    sources=['harness.c'],
    assumptions=['atomics are modelled sequentially (one writer, no concurrent reader in these runs); memory orders are carried as arguments but have no effect',
                 'element type frgv::tracked, allocator = CBMC allocation model',
                 'erase does not destroy the value (readers may still hold it): the harness destroys erased values before the tree is destroyed'],
)
A = 0x0123456789ABCDEF
def keysets(tier):
    """key triples: the second key first differs from the first at nibble j (every j incl. the most significant one), the
    third one at nibble l; dense runs within one leaf; the extremes 0 and 2^64-1"""
    out = []
    js = range(16) if tier == 'thorough' else (0, 1, 8, 14, 15)
    for j in js:
        b = A ^ (0x8 << (60 - 4 * j))
        for l in ((0, 7, 15) if tier == 'thorough' else (0, 15)):
            c = A ^ (0x4 << (60 - 4 * l))
            if c != b:
                out.append((A, b, c, 'second key splits at nibble %d, third at nibble %d' % (j, l)))
    out.append((A, A + 1, A - 1, 'dense run inside one leaf'))
    out.append((0, 0xFFFFFFFFFFFFFFFF, 1, 'extremes 0 and 2^64-1'))
    out.append((0xFFFFFFFFFFFFFFFF, 0x7FFFFFFFFFFFFFFF, 0xFFFFFFFFFFFFFFF0, 'top-nibble split and last-nibble neighbours of 2^64-1'))
    return out
SEQS = [(10, 11, 12), (11, 10, 12, 30, 20), (20, 20, 11, 31, 21), (12, 11, 10, 31, 32, 11), (10, 30, 10, 11, 12)]
def obligations(tier):
    obs = [dict(id='rt.pfx_idx', entry='h_rt_pfx_idx', cls='P', serves=['C09'], function='rt_pfx_of', timeout=300)]
    for n, (a, b, c, what) in enumerate(keysets(tier)):
        for m, seq in enumerate(SEQS):
            obs.append(dict(id='rt.ops.keys%d.seq%d' % (n, m), entry='h_rt_ops', cls='B', serves=['C09', 'C10', 'C16'], unwind=18, leak=True, function='rt_find_or_insert__int_R',
                            defines=['RT_LEN=%d' % len(seq), 'RT_OPS={%s}' % ','.join(str(x) for x in seq), 'RT_KEYS={0x%xUL,0x%xUL,0x%xUL}' % (a, b, c)],
                            bound='keys %#x, %#x, %#x (%s); operations %s (10k+i: 1 insert, 2 find_or_insert, 3 erase of key i); after every step 12 lookups (the keys and absent neighbours) and ordered iteration are compared with the reference map' % (a, b, c, what, seq),
                            timeout=900))
    obs.append(dict(id='rt.reinsert_over_erased', entry='h_rt_ops', cls='B', serves=['C16'], unwind=18, leak=True, function='rt_erase', kf='radix-erase-no-destroy',
                    defines=['RT_KEEP_ERASED', 'RT_LEN=3', 'RT_OPS={10,30,10}'], bound='insert, erase, insert of one key; the owner does not destroy the erased value in between', timeout=300))
    return obs
