// Instantiation TU: rcu_radixtree (C09, C10, C16).
#include <frgv_types.hpp>
#include <frg/rcu_radixtree.hpp>
namespace frgv {
using A_rt = frg::rcu_radixtree<tracked, valloc>;
using A_rt_it = A_rt::iterator;
using A_rt_ins = frg::tuple<tracked *, bool>;
void frgv_force(A_rt &t, uint64_t k, int v) {
	(void)t.find_or_insert(k, v);
	(void)t.insert(k, v);
}
}
template struct frg::rcu_radixtree<frgv::tracked, frgv::valloc>;
