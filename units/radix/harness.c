#define FRGV_LIVE_COUNT
/* rcu_radixtree harnesses (C09, C10, C16). */
unsigned frgv_assert_hook_hits;
#define FRGV_CANARY() __CPROVER_assert(0, "canary: end of harness reachable")
size_t nondet_size_t(void);
unsigned long nondet_ulong(void);
#define FRGV_MAX_ALLOC 4096
#define FRGV_VALLOC_STUBS          /* this unit brings its own allocator stub (typed blocks, see below) */
#include "tracked_stubs.c"
static struct frgv_valloc frgv_a;
/* ASSUMED: allocator = CBMC's allocation model. Blocks of node size are allocated with their node type so that CBMC keeps
 * their fields as typed values (an untyped byte block makes every field read symbolic and the depth loops unbounded). */
unsigned long frgv_alloc_calls, frgv_free_calls;
static struct rt_node rt_wild_object;
#define RT_WILD (&rt_wild_object)
void *frgv_valloc_allocate(struct frgv_valloc *this, unsigned long n)
{
	frgv_alloc_calls++;
	if (n == sizeof(struct rt_entry_node)) { struct rt_entry_node *p = malloc(sizeof(struct rt_entry_node)); __CPROVER_assume(p != 0); struct rt_entry_node z = {0}; *p = z; return p; }
	if (n == sizeof(struct rt_link_node)) { struct rt_link_node *p = malloc(sizeof(struct rt_link_node)); __CPROVER_assume(p != 0); struct rt_link_node z = {0}; *p = z;
		/* raw memory is not zero: uninitialised link slots hold a recognisable wild pointer until the tree stores into them */
		for (int i = 0; i < 16; i++) p->links[i] = RT_WILD; p->__b0.depth = 0xdead;
		return p; }
	__CPROVER_assert(0, "radix tree allocates only nodes");
	return 0;
}
void frgv_valloc_free(struct frgv_valloc *this, void *p) { if (p) { frgv_free_calls++; free(p); } }
void frgv_valloc_deallocate(struct frgv_valloc *this, void *p, unsigned long n)
{
	if (p) { frgv_free_calls++;
		__CPROVER_assert(__CPROVER_POINTER_OFFSET(p) != 0 || __CPROVER_OBJECT_SIZE(p) == n, "allocator: deallocate with a size different from the allocation size");
		free(p); }
}

/* ---- C09 mechanism 1 (class P, loop-free): prefix/index extraction for all 2^64 keys and every depth the callers use */
void h_rt_pfx_idx(void)
{
	struct rt t; unsigned long k = nondet_ulong(); unsigned d = (unsigned)nondet_size_t(); __CPROVER_assume(d <= 15);
	unsigned long p = rt_pfx_of(&t, k, d);
	unsigned long want = d == 0 ? 0 : (k & ~((1UL << (64 - 4 * d)) - 1));
	__CPROVER_assert(p == want, "pfx_of(k, d) keeps the d most significant nibbles and clears the rest (the empty prefix for d = 0)");
	unsigned i = rt_idx_of(&t, k, d);
	__CPROVER_assert(i == ((k >> (60 - 4 * d)) & 0xF) && i < 16, "idx_of(k, d) is nibble d counted from the most significant one");
	__CPROVER_assert(d == 15 || rt_pfx_of(&t, k, d + 1) == (p | ((unsigned long)i << (60 - 4 * d))), "the prefix one level down is the prefix extended by the index");
	FRGV_CANARY();
}

/* ---- C09/C16 bounded: operation sequences over up to three fully symbolic 64-bit keys against a reference map.
 * RT_OPS: sequence of operations; op = 10*kind + key index; kinds: 1 insert (key absent), 2 find_or_insert, 3 erase (key present) */
#ifndef RT_LEN
#define RT_LEN 2
#define RT_OPS {10, 11}
#endif
#ifndef RT_KEYS
#define RT_KEYS {0x0123456789ABCDEFUL, 0x8123456789ABCDEFUL, 0x0123456789ABCDEEUL}
#endif

/* ---- C10: the single writer's publication discipline, checked at every atomic access of the lowered code ------------------------
 * Readers are lock-free: what they can observe is the sequence of states between the writer's atomic stores. The obligations are
 *  (a) order roles: a store that makes a node or a value reachable (into _root, into a link slot of a reachable node, a mask bit of a
 *      reachable leaf) is at least release; find() loads _root, links and mask with at least acquire;
 *  (b) completeness at publication: the node being made reachable is fully written (no wild link slot, depth/prefix/parent set, every
 *      masked slot holds a constructed value);
 *  (c) monotone reachability: after EVERY store a complete find() for each key that was present when the operation began still returns
 *      its value, and find() for any other key returns null or a constructed value stored under exactly that key;
 *  (d) prefix and depth of a node do not change once it is reachable (checked at the end of every operation).
 * A store that replaces a reachable subtree s by a new inner node must keep s below it ((c) catches a violation). */
#define ACQ(o) ((o) == FRGV_MEMORY_ORDER_ACQUIRE || (o) == FRGV_MEMORY_ORDER_ACQ_REL || (o) == FRGV_MEMORY_ORDER_SEQ_CST || (o) == FRGV_MEMORY_ORDER_CONSUME)
#define REL(o) ((o) == FRGV_MEMORY_ORDER_RELEASE || (o) == FRGV_MEMORY_ORDER_ACQ_REL || (o) == FRGV_MEMORY_ORDER_SEQ_CST)
#define NK 3
static struct rt *g_t; static _Bool g_hooks_on, g_in_reader;
static unsigned long K[NK]; static int present[NK]; static int val[NK]; static struct frgv_tracked *addr[NK];
static int g_cur_key = -1; static int g_cur_val; static _Bool pre_present[NK];
#define MAXN 12
static struct rt_node *g_pub[MAXN]; static int g_npub; static unsigned long g_pub_prefix[MAXN]; static unsigned g_pub_depth[MAXN];
static _Bool is_pub(struct rt_node *n) { for (int i = 0; i < MAXN; i++) if (i < g_npub && g_pub[i] == n) return 1; return 0; }
static void publish(struct rt_node *n)
{
	if (!n || is_pub(n)) return;
	__CPROVER_assert(g_npub < MAXN, "harness: node table too small");
	__CPROVER_assert(n != RT_WILD, "C10: a wild (never written) link slot becomes reachable");
	g_pub_prefix[g_npub] = n->prefix; g_pub_depth[g_npub] = n->depth; g_pub[g_npub++] = n;
	if (n->depth == 15) {
		struct rt_entry_node *e = (struct rt_entry_node *)n;
		__CPROVER_assert(e->mask != 0, "C10: a leaf is published with at least one value");
		for (int i = 0; i < 16; i++) if (e->mask & (1 << i))
			__CPROVER_assert(((struct frgv_tracked *)e->entries[i].buffer)->live == 1, "C10: every value of a leaf is constructed before the leaf becomes reachable");
	} else {
		__CPROVER_assert(n->depth < 15, "C10: an inner node is published with its depth set");
		struct rt_link_node *l = (struct rt_link_node *)n;
		for (int i = 0; i < 16; i++) {
			__CPROVER_assert(l->links[i] != RT_WILD, "C10: an inner node is published with every link slot initialised");
			if (l->links[i] && l->links[i] != RT_WILD) {
				__CPROVER_assert(l->links[i]->parent == l, "C10: a child is linked to its parent before the parent becomes reachable");
				publish(l->links[i]);
			}
		}
	}
}
static _Bool slot_reachable(void *p)
{
	if (p == (void *)&g_t->_root) return 1;
	for (int i = 0; i < MAXN; i++) if (i < g_npub && __CPROVER_same_object(p, g_pub[i])) return 1;
	return 0;
}
static int fn_is_find(const char *fn) { return fn[0] == 'r' && fn[1] == 't' && fn[2] == '_' && fn[3] == 'f' && fn[4] == 'i' && fn[5] == 'n' && fn[6] == 'd' && fn[7] == 0; }
void rt_hook_load(void *p, int order, const char *fn)
{
	if (!g_hooks_on) return;
	if (fn_is_find(fn)) __CPROVER_assert(ACQ(order), "C10 order: find() loads _root, link slots and the presence mask with at least acquire");
}
void rt_hook_store(void *p, const void *vp, unsigned long size, int order, const char *fn)
{
	if (!g_hooks_on) return;
	if (!slot_reachable(p)) return;                   /* a node still private to the writer: any order */
	__CPROVER_assert(REL(order), "C10 order: a store into reachable memory (publication of a node or of a value) is at least release");
	if (size == sizeof(struct rt_node *)) publish(*(struct rt_node *const *)vp);
	else {                                            /* the presence mask of a reachable leaf */
		unsigned short nm = *(const unsigned short *)vp; struct rt_entry_node *e = 0;
		for (int i = 0; i < MAXN; i++) if (i < g_npub && __CPROVER_same_object(p, g_pub[i])) e = (struct rt_entry_node *)g_pub[i];
		for (int i = 0; i < 16; i++) if ((nm & (1 << i)) && !(e->mask & (1 << i)))
			__CPROVER_assert(((struct frgv_tracked *)e->entries[i].buffer)->live == 1, "C10: a value is constructed before its presence bit is published");
	}
}
void rt_hook_stored(void *p, int order, const char *fn)
{
	if (!g_hooks_on || g_in_reader) return;
	g_in_reader = 1;                                  /* a reader runs a complete find() for every key of the run, here */
	for (int i = 0; i < NK; i++) {
		struct frgv_tracked *f = rt_find(g_t, K[i]);
		if (pre_present[i] && i != g_cur_key)
			__CPROVER_assert(f == addr[i] && f->live == 1 && f->v == val[i], "C10: a key present before the operation and not erased by it is found after every single store of the writer");
		else if (i == g_cur_key)
			__CPROVER_assert(f == 0 || (f->live == 1 && (pre_present[i] ? (f == addr[i] && f->v == val[i]) : f->v == g_cur_val)), "C10: find() of the key being inserted or erased returns null or a fully constructed value stored under that key");
		else
			__CPROVER_assert(f == 0, "C10: find() of an absent key returns null at every point of the writer's operation");
	}
	g_in_reader = 0;
}
static void c10_begin(struct rt *t, int key, int v) { g_t = t; g_cur_key = key; g_cur_val = v; for (int i = 0; i < NK; i++) pre_present[i] = present[i]; g_hooks_on = 1; }
static void c10_end(void)
{
	g_hooks_on = 0; g_cur_key = -1;
	for (int i = 0; i < MAXN; i++) if (i < g_npub)
		__CPROVER_assert(g_pub[i]->prefix == g_pub_prefix[i] && g_pub[i]->depth == g_pub_depth[i], "C10: prefix and depth of a reachable node never change");
}
static const int rt_ops[] = RT_OPS;
static void rt_check(struct rt *t)
{
	/* lookups: every key of the run and neighbours of them that are not in the tree (same leaf, same top nibble, complement) */
	for (int c = 0; c < 4 * NK; c++) {
		unsigned long q = K[c % NK];
		if (c / NK == 1) q ^= 1; else if (c / NK == 2) q ^= 1UL << 60; else if (c / NK == 3) q = ~q;
		struct frgv_tracked *f = rt_find(t, q);
		_Bool hit = 0;
		for (int i = 0; i < NK; i++) if (present[i] && K[i] == q) {
			hit = 1;
			__CPROVER_assert(f == addr[i] && f->live == 1 && f->v == val[i], "find returns the address of the value most recently inserted under that key; the address never changes while it is present");
		}
		if (!hit) __CPROVER_assert(f == 0, "find returns null for a key that is not present");
	}
	/* ordered iteration: exactly the present keys, ascending */
	struct rt_it it = rt_begin(t), e = rt_end(t);
	int order[NK]; int m = 0;
	for (int i = 0; i < NK; i++) if (present[i]) { int j = m++; order[j] = i; while (j > 0 && K[order[j - 1]] > K[order[j]]) { int x = order[j]; order[j] = order[j - 1]; order[j - 1] = x; j--; } }
	for (int j = 0; j < NK; j++) if (j < m) {
		__CPROVER_assert(rt_it_op_ne(&it, &e) && rt_it_op_arrow(&it) == addr[order[j]], "iteration visits exactly the present keys' values, once each, in ascending key order");
		rt_it_op_inc(&it);
	}
	__CPROVER_assert(rt_it_op_eq(&it, &e), "iteration ends after the last present key");
}
void h_rt_ops(void)
{
	struct rt t; memset(&t, 0, sizeof(t)); rt_ctor(&t, frgv_a);
	static const unsigned long keys_[NK] = RT_KEYS;            /* the (concrete) key set of this run, see unit.py */
	for (int i = 0; i < NK; i++) { K[i] = keys_[i]; present[i] = 0; addr[i] = 0; }
	for (int step = 0; step < RT_LEN; step++) {
		int kind = rt_ops[step] / 10, i = rt_ops[step] % 10; int v = (int)nondet_size_t();
		c10_begin(&t, i, v);
		if (kind == 1 && !present[i]) { addr[i] = rt_insert__int_R(&t, K[i], &v); present[i] = 1; val[i] = v;
			__CPROVER_assert(addr[i] != 0 && addr[i]->live == 1 && addr[i]->v == v, "insert constructs the value"); }
		else if (kind == 2) { struct rt_ins r = rt_find_or_insert__int_R(&t, K[i], &v);
			__CPROVER_assert(r._stor.tail.item == !present[i], "find_or_insert reports whether it inserted");
			if (present[i]) __CPROVER_assert(r._stor.item == addr[i] && addr[i]->v == val[i], "find_or_insert never creates a second value for a present key");
			else { addr[i] = r._stor.item; present[i] = 1; val[i] = v; __CPROVER_assert(addr[i]->v == v && addr[i]->live == 1, "find_or_insert constructs the value"); } }
		else if (kind == 3 && present[i]) { rt_erase(&t, K[i]); present[i] = 0;
			__CPROVER_assert(addr[i]->live == 1 && addr[i]->v == val[i], "erase leaves the removed value intact (a reader may still hold it)");
#ifndef RT_KEEP_ERASED
			/* the owner's side of the RCU contract: after a grace period it destroys the value it removed. Without this,
			 * re-inserting the key constructs over the never-destroyed object: known finding radix-erase-no-destroy */
			frgv_tracked_dtor(addr[i]);
#endif
		}
		c10_end();
		rt_check(&t);
	}
	FRGV_CANARY();
	/* C16: the destructor destroys exactly the present values and frees every node (leak check) */
	for (int i = 0; i < NK; i++) if (!present[i] && addr[i] && addr[i]->live) frgv_tracked_dtor(addr[i]);
	rt_dtor(&t);
#ifndef RT_KEEP_ERASED
	FRGV_NONE_LIVE();
#endif
}
