UNIT = dict(
    name='hmap',
    roots=['rec:hm*', 'rec:optv', 'fn:frgv::frgv_force'],
    exclude=('hm_ctor_1',),
    defines=['FRGV_ZERO_RECORD_LOCALS'],
    sources=['harness.c'],
    assumptions=['hash functor: pure function of the key; four representative functions per state (constant, identity, k*3, k*10+1) cover all-colliding, spread, colliding-before-growth and colliding-after-growth placements',
                 'hash_map(initializer_list) constructor not covered (std::initializer_list is outside the lowered AST)',
                 'tables built constructively with capacity 1..3 (and 10 after growth) and up to 3 entries'],
)
OPS = {0: 'constructed table', 1: 'insert(const&) of an absent key', 2: 'insert(&&) of an absent key', 3: 'operator[] (twice)',
       4: 'remove', 5: 'rehash'}
def obligations(tier):
    obs = []
    caps = [1, 2, 3] if tier == 'quick' else [1, 2, 3, 4]
    keys = {1: [0, 4], 2: [0, 4], 3: [1, 2, 4], 4: [1, 3, 5]}        # absent keys for insert; present and absent for [] and remove
    for cap in [0] + caps:
        for n in ([0] if cap == 0 else range(0, 4 if tier == 'quick' else 5)):
            for h in range(4):
                for op, what in OPS.items():
                    if op == 0 and cap == 0:
                        continue
                    ks = [0] if op in (0, 5) else ([k for k in keys[op] if (k > n or k == 0) or op in (3, 4)])
                    for k in ks:
                        if op in (1, 2) and 1 <= k <= n:
                            continue
                        obs.append(dict(id='hm.cap%d.n%d.h%d.op%d.k%d' % (cap, n, h, op, k), entry='h_hm', cls='B', serves=['C14', 'C16'], unwind=14, leak=True,
                                        defines=['HM_CAP=%d' % cap, 'HM_N=%d' % n, 'HM_OP=%d' % op, 'HM_H=%d' % h, 'HM_KEY=%d' % k], function='hm_op_index',
                                        bound='table with %d buckets and %d entries (keys 1..%d), hash function #%d, then %s on key %d; all 6 keys of the universe queried, symbolic values' % (cap, n, n, h, what, k),
                                        timeout=600))
    return obs
