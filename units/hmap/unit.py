UNIT = dict(
    name='hmap',
    roots=['rec:hm*', 'rec:optv', 'fn:frgv::frgv_force'],
    exclude=('hm_ctor_1',),
    defines=['FRGV_ZERO_RECORD_LOCALS'],
    sources=['harness.c'],
    assumptions=['hash functor: arbitrary pure function of the key (symbolic table H[key]), colliding hashes included',
                 'hash_map(initializer_list) constructor not covered (std::initializer_list is outside the lowered AST)',
                 'tables built constructively with capacity 1..3 (and 10 after growth) and up to 3 entries'],
)
OPS = {0: 'constructed table', 1: 'insert(const&) of an absent key', 2: 'insert(&&) of an absent key', 3: 'operator[] (twice)',
       4: 'remove', 5: 'rehash'}
def obligations(tier):
    obs = []
    caps = [1, 2, 3] if tier == 'quick' else [1, 2, 3, 4]
    for cap in caps:
        for n in range(0, 4 if tier == 'quick' else 5):
            for op, what in OPS.items():
                obs.append(dict(id='hm.cap%d.n%d.op%d' % (cap, n, op), entry='h_hm', cls='B', serves=['C14', 'C16'], unwind=14, leak=True,
                                defines=['HM_CAP=%d' % cap, 'HM_N=%d' % n, 'HM_OP=%d' % op], function='hm_op_index',
                                bound='table with %d buckets and %d entries (keys 1..%d), arbitrary symbolic hash, then %s; all 6 keys of the universe queried' % (cap, n, n, what),
                                timeout=900))
    # capacity 0 (fresh map): every operation from the empty map
    for op, what in OPS.items():
        if op == 0: continue
        obs.append(dict(id='hm.fresh.op%d' % op, entry='h_hm', cls='B', serves=['C14', 'C16'], unwind=14, leak=True,
                        defines=['HM_CAP=0', 'HM_N=0', 'HM_OP=%d' % op], function='hm_op_index',
                        bound='freshly constructed map (no table), then %s' % what, timeout=900))
    return obs
