// Instantiation TU: hash_map (C14, C16).
#include <frgv_types.hpp>
#include <frg/hash_map.hpp>
namespace frgv {
struct vhash {
	unsigned long operator() (const int &k) const;    // stub: H[k]; wider than the unsigned int the map reduces it to
};
using A_hm = frg::hash_map<int, tracked, vhash, valloc>;
using A_hm_it = A_hm::iterator;
using A_hm_cit = A_hm::const_iterator;
using A_hm_entry = A_hm::entry_type;
using A_optv = frg::optional<tracked>;
void frgv_force(A_hm &m, int k) {
	(void)m.get(k);
	const A_hm &cm = m;
	(void)cm.find(k);
	(void)cm.end();
}
}
template class frg::hash_map<int, frgv::tracked, frgv::vhash, frgv::valloc>;
template class frg::optional<frgv::tracked>;
