#define FRGV_LIVE_COUNT
/* hash_map harnesses (C14, C16): class B - one operation from every well-formed table of a small family.
 * The table is built constructively: capacity HM_CAP buckets, HM_N entries with distinct keys 1..HM_N placed in bucket
 * H[key] % capacity, where H is an arbitrary (symbolic) function of the key - "any hash function, including colliding ones". */
unsigned frgv_assert_hook_hits;
#define FRGV_CANARY() __CPROVER_assert(0, "canary: end of harness reachable")
size_t nondet_size_t(void);
unsigned int nondet_uint(void);
#define FRGV_MAX_ALLOC 4096
#include "tracked_stubs.c"

#ifndef HM_CAP
#define HM_CAP 2
#define HM_N 2
#define HM_OP 0
#endif
#ifndef HM_H
#define HM_H 0
#endif
#ifndef HM_KEY
#define HM_KEY 0
#endif
#define KEYS 6                      /* key universe 0..5; keys 1..HM_N are present */
static unsigned long H[KEYS];
/* ASSUMED: the hash functor is a pure function of the key */
unsigned long frgv_vhash_op_call(struct frgv_vhash *this, int *k) { __CPROVER_assert(*k >= 0 && *k < KEYS, "harness key universe"); return H[*k]; }

static struct frgv_valloc frgv_a; static struct frgv_vhash frgv_h;
static int present[KEYS]; static int value_of[KEYS];

static void build(struct hm *m)
{
	/* the hash function of this run: HM_H = 0 constant (everything collides), 1 identity, 2 k*3 (collides mod 3, spreads mod 10),
	 * 3 k*10+1 (collides after growth to 10 buckets) */
	for (int k = 0; k < KEYS; k++) { H[k] = HM_H == 0 ? 7u : HM_H == 1 ? (unsigned)k : HM_H == 2 ? (unsigned)k * 3u : (unsigned)k * 10u + 1u;
		H[k] += 0x300000000UL;      /* bits above 32: every path must reduce the hash to unsigned int the same way before taking it modulo the capacity */
		present[k] = 0; }
	memset(m, 0, sizeof(*m)); hm_ctor_0(m, &frgv_h, frgv_a);
	m->_capacity = HM_CAP;
	m->_table = HM_CAP ? (struct hm_chain **)frgv_valloc_allocate(&frgv_a, sizeof(struct hm_chain *) * HM_CAP) : 0;
	for (int k = 1; k <= HM_N; k++) {
		struct hm_chain *c = (struct hm_chain *)frgv_valloc_allocate(&frgv_a, sizeof(struct hm_chain));
		struct frgv_tracked t; memset(&t, 0, sizeof(t)); value_of[k] = nondet_int(); frgv_tracked_ctor(&t, value_of[k]);
		hm_chain_ctor_0(c, &k, &t); frgv_tracked_dtor(&t);
		unsigned b = H[k] % HM_CAP; c->next = m->_table[b]; m->_table[b] = c;
		m->_size++; present[k] = 1;
	}
}
static void check(struct hm *m)
{
	size_t cnt = 0;
	for (int k = 0; k < KEYS; k++) {
		struct frgv_tracked *g = hm_get__int(m, &k);
		struct hm_it it = hm_find_0(m, &k); struct hm_it e = hm_end_0(m);
		if (present[k]) {
			__CPROVER_assert(g != 0 && g->v == value_of[k] && g->live == 1, "get finds every present key with its value");
			__CPROVER_assert(!hm_it_op_eq(&it, &e) && *hm_entry_get__0(hm_it_op_star(&it)) == k && hm_entry_get__1(hm_it_op_star(&it)) == g, "find locates every present key");
			cnt++;
		} else {
			__CPROVER_assert(g == 0, "get finds no absent key");
			__CPROVER_assert(hm_it_op_eq(&it, &e), "find finds no absent key");
		}
	}
	__CPROVER_assert(hm_size(m) == cnt && hm_empty(m) == (cnt == 0), "size() is the number of entries");
	/* iteration yields every entry exactly once */
	int seen[KEYS]; for (int k = 0; k < KEYS; k++) seen[k] = 0;
	struct hm_it it = hm_begin(m); struct hm_it e = hm_end_0(m); size_t n = 0;
	for (int q = 0; q < KEYS + 1; q++) {
		if (hm_it_op_eq(&it, &e)) break;
		int k = *hm_entry_get__0(hm_it_op_star(&it));
		__CPROVER_assert(k >= 0 && k < KEYS && present[k] && !seen[k], "iteration yields present entries, none twice");
		seen[k] = 1; n++; hm_it_op_inc(&it);
	}
	__CPROVER_assert(hm_it_op_eq(&it, &e) && n == cnt, "iteration yields every entry");
}
void h_hm(void)
{
	struct hm m; build(&m);
	int k = HM_KEY;                                                /* key the operation works on (concrete per run) */
#if HM_OP == 0
	check(&m);                                                   /* the constructed table itself */
#elif HM_OP == 1
	__CPROVER_assume(!present[k]);                               /* insert(absent key, const Value &) */
	struct frgv_tracked t; memset(&t, 0, sizeof(t)); int v = nondet_int(); frgv_tracked_ctor(&t, v);
	hm_insert_0(&m, &k, &t); frgv_tracked_dtor(&t); present[k] = 1; value_of[k] = v; check(&m);
#elif HM_OP == 2
	__CPROVER_assume(!present[k]);                               /* insert(absent key, Value &&) */
	struct frgv_tracked t; memset(&t, 0, sizeof(t)); int v = nondet_int(); frgv_tracked_ctor(&t, v);
	hm_insert_1(&m, &k, &t); frgv_tracked_dtor(&t); present[k] = 1; value_of[k] = v; check(&m);
#elif HM_OP == 3
	struct frgv_tracked *r = hm_op_index(&m, &k);                /* operator[]: find or default-insert exactly once */
	__CPROVER_assert(r != 0 && r->live == 1 && r->v == (present[k] ? value_of[k] : 0), "operator[] returns the stored value or a default-constructed one");
	if (!present[k]) { present[k] = 1; value_of[k] = 0; }
	__CPROVER_assert(hm_get__int(&m, &k) == r, "operator[] returns the entry that get() finds");
	check(&m);
	__CPROVER_assert(hm_op_index(&m, &k) == r, "a second operator[] creates nothing new"); check(&m);
#elif HM_OP == 4
	struct optv out; memset(&out, 0, sizeof(out)); hm_remove(&out, &m, &k);   /* remove returns the stored value and makes the key absent */
	__CPROVER_assert(out._non_null == present[k] && (!present[k] || (((struct frgv_tracked *)out._stor.buffer)->v == value_of[k] && ((struct frgv_tracked *)out._stor.buffer)->live == 1)), "remove returns the stored value");
	present[k] = 0; optv_dtor(&out); check(&m);
#elif HM_OP == 5
	hm_rehash(&m); check(&m);                                    /* growth keeps the association */
#endif
	FRGV_CANARY();
	hm_dtor(&m);
	FRGV_NONE_LIVE();
}
