/* Contracts for the tree units.  Function contracts are separate symbols (f_contract) so the
 * lowered function text stays exactly what frg2c printed; loop contracts are woven by ordinal. */

#define ND(p) ((struct frgv_node *)(p))
#define NODE_SZ sizeof(struct frgv_node)

/* ---------------------------------------------------------------------------------------------
 * rotateLeft (rbtree.hpp:469-502).  n's parent u, n's left child v, u's parent w:
 *     w                 w
 *     u                 n
 *    x  n      -->     u  y
 *      v  y           x v
 * Everything the header comment draws is a postcondition; everything it does not draw is in the
 * frame (assigns) or stated unchanged.
 */
#define RL_U ND(n->hook.parent)
#define RL_V ND(n->hook.left)
#define RL_W ND(ND(n->hook.parent)->hook.parent)
void rb_base_rotateLeft_contract(struct rb_base *this, struct frgv_node *n)
__CPROVER_requires(__CPROVER_is_fresh(this, sizeof(*this)))
__CPROVER_requires(__CPROVER_is_fresh(n, NODE_SZ))
__CPROVER_requires(__CPROVER_is_fresh(n->hook.parent, NODE_SZ))
__CPROVER_requires(n->hook.left == NULL || __CPROVER_is_fresh(n->hook.left, NODE_SZ))
__CPROVER_requires(RL_U->hook.parent == NULL || __CPROVER_is_fresh(RL_U->hook.parent, NODE_SZ))
__CPROVER_requires(RL_U->hook.right == n)
__CPROVER_requires(RL_W == NULL ? this->_root == RL_U : (RL_W->hook.left == RL_U) != (RL_W->hook.right == RL_U))
__CPROVER_assigns(this->_root, n->hook.left, n->hook.parent, RL_U->hook.right, RL_U->hook.parent;
                  RL_V != NULL: RL_V->hook.parent;
                  RL_W != NULL: RL_W->hook.left, RL_W->hook.right)
/* u became n's left child, v moved under u as its right child */
__CPROVER_ensures(n->hook.left == __CPROVER_old(n->hook.parent))
__CPROVER_ensures(ND(n->hook.left)->hook.parent == n)
__CPROVER_ensures(ND(n->hook.left)->hook.right == __CPROVER_old(n->hook.left))
__CPROVER_ensures(__CPROVER_old(n->hook.left) == NULL
                  || ND(ND(n->hook.left)->hook.right)->hook.parent == n->hook.left)
/* n took u's place under w (same side), or became the root */
__CPROVER_ensures(n->hook.parent == __CPROVER_old(ND(n->hook.parent)->hook.parent))
__CPROVER_ensures(n->hook.parent != NULL || this->_root == n)
__CPROVER_ensures(n->hook.parent == NULL || this->_root == __CPROVER_old(this->_root))
__CPROVER_ensures(n->hook.parent == NULL ||
    (__CPROVER_old(ND(ND(n->hook.parent)->hook.parent)->hook.left) == n->hook.left
       ? (ND(n->hook.parent)->hook.left == n &&
          ND(n->hook.parent)->hook.right == __CPROVER_old(ND(ND(n->hook.parent)->hook.parent)->hook.right))
       : (ND(n->hook.parent)->hook.right == n &&
          ND(n->hook.parent)->hook.left == __CPROVER_old(ND(ND(n->hook.parent)->hook.parent)->hook.left))))
/* x, y, colours, keys and the successor list are untouched */
__CPROVER_ensures(n->hook.right == __CPROVER_old(n->hook.right))
__CPROVER_ensures(ND(n->hook.left)->hook.left == __CPROVER_old(ND(n->hook.parent)->hook.left))
__CPROVER_ensures(n->hook.color == __CPROVER_old(n->hook.color))
__CPROVER_ensures(ND(n->hook.left)->hook.color == __CPROVER_old(ND(n->hook.parent)->hook.color))
__CPROVER_ensures(n->hook.successor == __CPROVER_old(n->hook.successor) &&
                  n->hook.predecessor == __CPROVER_old(n->hook.predecessor))
__CPROVER_ensures(ND(n->hook.left)->hook.successor == __CPROVER_old(ND(n->hook.parent)->hook.successor) &&
                  ND(n->hook.left)->hook.predecessor == __CPROVER_old(ND(n->hook.parent)->hook.predecessor))
__CPROVER_ensures(n->key == __CPROVER_old(n->key) && ND(n->hook.left)->key == __CPROVER_old(ND(n->hook.parent)->key))
;

/* rotateRight (rbtree.hpp:504-537): mirror image.  v = n's right child. */
#define RR_U ND(n->hook.parent)
#define RR_V ND(n->hook.right)
#define RR_W ND(ND(n->hook.parent)->hook.parent)
void rb_base_rotateRight_contract(struct rb_base *this, struct frgv_node *n)
__CPROVER_requires(__CPROVER_is_fresh(this, sizeof(*this)))
__CPROVER_requires(__CPROVER_is_fresh(n, NODE_SZ))
__CPROVER_requires(__CPROVER_is_fresh(n->hook.parent, NODE_SZ))
__CPROVER_requires(n->hook.right == NULL || __CPROVER_is_fresh(n->hook.right, NODE_SZ))
__CPROVER_requires(RR_U->hook.parent == NULL || __CPROVER_is_fresh(RR_U->hook.parent, NODE_SZ))
__CPROVER_requires(RR_U->hook.left == n)
__CPROVER_requires(RR_W == NULL ? this->_root == RR_U : (RR_W->hook.left == RR_U) != (RR_W->hook.right == RR_U))
__CPROVER_assigns(this->_root, n->hook.right, n->hook.parent, RR_U->hook.left, RR_U->hook.parent;
                  RR_V != NULL: RR_V->hook.parent;
                  RR_W != NULL: RR_W->hook.left, RR_W->hook.right)
__CPROVER_ensures(n->hook.right == __CPROVER_old(n->hook.parent))
__CPROVER_ensures(ND(n->hook.right)->hook.parent == n)
__CPROVER_ensures(ND(n->hook.right)->hook.left == __CPROVER_old(n->hook.right))
__CPROVER_ensures(__CPROVER_old(n->hook.right) == NULL
                  || ND(ND(n->hook.right)->hook.left)->hook.parent == n->hook.right)
__CPROVER_ensures(n->hook.parent == __CPROVER_old(ND(n->hook.parent)->hook.parent))
__CPROVER_ensures(n->hook.parent != NULL || this->_root == n)
__CPROVER_ensures(n->hook.parent == NULL || this->_root == __CPROVER_old(this->_root))
__CPROVER_ensures(n->hook.parent == NULL ||
    (__CPROVER_old(ND(ND(n->hook.parent)->hook.parent)->hook.left) == n->hook.right
       ? (ND(n->hook.parent)->hook.left == n &&
          ND(n->hook.parent)->hook.right == __CPROVER_old(ND(ND(n->hook.parent)->hook.parent)->hook.right))
       : (ND(n->hook.parent)->hook.right == n &&
          ND(n->hook.parent)->hook.left == __CPROVER_old(ND(ND(n->hook.parent)->hook.parent)->hook.left))))
__CPROVER_ensures(n->hook.left == __CPROVER_old(n->hook.left))
__CPROVER_ensures(ND(n->hook.right)->hook.right == __CPROVER_old(ND(n->hook.parent)->hook.right))
__CPROVER_ensures(n->hook.color == __CPROVER_old(n->hook.color))
__CPROVER_ensures(ND(n->hook.right)->hook.color == __CPROVER_old(ND(n->hook.parent)->hook.color))
__CPROVER_ensures(n->hook.successor == __CPROVER_old(n->hook.successor) &&
                  n->hook.predecessor == __CPROVER_old(n->hook.predecessor))
__CPROVER_ensures(ND(n->hook.right)->hook.successor == __CPROVER_old(ND(n->hook.parent)->hook.successor) &&
                  ND(n->hook.right)->hook.predecessor == __CPROVER_old(ND(n->hook.parent)->hook.predecessor))
__CPROVER_ensures(n->key == __CPROVER_old(n->key) && ND(n->hook.right)->key == __CPROVER_old(ND(n->hook.parent)->key))
;
