"""Shape enumeration for the bounded (class B) whole-structure checks of the tree units."""
from functools import lru_cache

# ---- red-black trees: all shapes+colourings with n nodes. A tree is None or (colour, left, right); colour 'R'/'B'.
@lru_cache(maxsize=None)
def rb_sub(n, bh, may_be_red):
    """subtrees with n nodes whose black height (black nodes on any path to a leaf) is bh"""
    out = []
    if n == 0:
        return [None] if bh == 0 else []
    for nl in range(n):
        nr = n - 1 - nl
        if bh >= 1:
            for l in rb_sub(nl, bh - 1, True):
                for r in rb_sub(nr, bh - 1, True):
                    out.append(('B', l, r))
        if may_be_red:
            for l in rb_sub(nl, bh, False):
                for r in rb_sub(nr, bh, False):
                    out.append(('R', l, r))
    return out

def rb_trees(n):
    out = []
    if n == 0:
        return [None]
    for bh in range(1, n + 1):
        out += rb_sub(n, bh, False)       # the root is black
    return out

def rb_build_code(tree, n, fn, node_t, arr, hook, tree_t, key_assume, extra=''):
    """C function building `tree` over nodes arr[0..n-1] numbered in in-order"""
    lines = ['static void %s(struct %s *t)' % (fn, tree_t), '{']
    idx = [0]
    links = []          # (node, parent, left, right, colour)
    def walk(t, parent):
        if t is None:
            return None
        c, l, r = t
        li = walk(l, None)
        me = idx[0]; idx[0] += 1
        ri = walk(r, None)
        links.append([me, None, li, ri, c])
        return me
    root = walk(tree, None)
    par = {}
    for me, _, li, ri, c in links:
        if li is not None: par[li] = me
        if ri is not None: par[ri] = me
    P = lambda i: ('(void *)&%s[%d]' % (arr, i)) if i is not None else '(void *)0'
    for me, _, li, ri, c in sorted(links):
        h = '%s[%d].%s' % (arr, me, hook)
        lines.append('\t%s.parent = %s; %s.left = %s; %s.right = %s;' % (h, P(par.get(me)), h, P(li), h, P(ri)))
        lines.append('\t%s.predecessor = %s; %s.successor = %s; %s.color = frg__redblack_color_type_%s;' % (
            h, P(me - 1 if me > 0 else None), h, P(me + 1 if me + 1 < n else None), h, 'red' if c == 'R' else 'black'))
    lines.append('\t((struct %s *)t)->_root = %s;' % ('rb_base', P(root)) if False else '\t*(void **)t = %s;   /* _root is the first member of the tree base */' % P(root))
    if extra:
        # post-order code for aggregates
        order = []
        def post(t, base=[0]):
            pass
        lines.append(extra(links))
    lines.append(key_assume)
    lines.append('}')
    return '\n'.join(lines)

# ---- pairing heaps: ordered trees with n nodes. A heap node is a tuple of children.
@lru_cache(maxsize=None)
def forests(n):
    """ordered forests with n nodes in total"""
    if n == 0:
        return [()]
    out = []
    for k in range(1, n + 1):            # size of the first tree
        for first in otrees(k):
            for rest in forests(n - k):
                out.append((first,) + rest)
    return out

@lru_cache(maxsize=None)
def otrees(n):
    return [tuple(f) for f in forests(n - 1)]

def heaps(n):
    return [None] if n == 0 else otrees(n)
