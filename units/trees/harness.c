/* Harnesses for the tree units. */
unsigned frgv_assert_hook_hits;
#define FRGV_CANARY() __CPROVER_assert(0, "canary: end of harness reachable")

/* ---- stubs: comparator / callback parameter types (ASSUMED: pure functions of the payload) */
/* ASSUMED: frgv::node_less compares by key only: a.key < b.key */
_Bool frgv_node_less_op_call(struct frgv_node_less *this, struct frgv_node *a, struct frgv_node *b)
{ return a->key < b->key; }
/* ASSUMED: frgv::item_cmp orders by priority only: a->prio < b->prio */
_Bool frgv_item_cmp_op_call(struct frgv_item_cmp *this, struct frgv_item *a, struct frgv_item *b)
{ return a->prio < b->prio; }
/* ASSUMED: the overlap callback only counts its invocations per node */
void frgv_visit_fn_op_call(struct frgv_visit_fn *this, struct frgv_ival *n)
{ n->visits++; }

void h_rb_rotateLeft(void)
{
	struct rb_base *t;
	struct frgv_node *n;
	rb_base_rotateLeft(t, n);
	FRGV_CANARY();
}

void h_rb_rotateRight(void)
{
	struct rb_base *t;
	struct frgv_node *n;
	rb_base_rotateRight(t, n);
	FRGV_CANARY();
}
