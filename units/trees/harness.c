/* Harnesses for the tree units. */
unsigned frgv_assert_hook_hits;
#define FRGV_CANARY() __CPROVER_assert(0, "canary: end of harness reachable")

/* ---- stubs: comparator / callback parameter types (ASSUMED: pure functions of the payload) */
/* ASSUMED: frgv::node_less compares by key only: a.key < b.key */
_Bool frgv_node_less_op_call(struct frgv_node_less *this, struct frgv_node *a, struct frgv_node *b)
{ return a->key < b->key; }
/* ASSUMED: frgv::item_cmp orders by priority only: a->prio < b->prio */
_Bool frgv_item_cmp_op_call(struct frgv_item_cmp *this, struct frgv_item *a, struct frgv_item *b)
{ return a->prio < b->prio; }
/* ASSUMED: the overlap callback only counts its invocations per node */
void frgv_visit_fn_op_call(struct frgv_visit_fn *this, struct frgv_ival *n)
{ n->visits++; }

void h_rb_rotateLeft(void)
{
	struct rb_base *t;
	struct frgv_node *n;
	rb_base_rotateLeft(t, n);
	FRGV_CANARY();
}

void h_rb_rotateRight(void)
{
	struct rb_base *t;
	struct frgv_node *n;
	rb_base_rotateRight(t, n);
	FRGV_CANARY();
}

/* =============================================================================================
 * Bounded whole-structure checks (class B): every red-black shape+colouring with up to N nodes is built
 * concretely (generated builders, see unit.py/shapes.py), keys/intervals/priorities stay symbolic.
 * The oracle below is the property statement itself, evaluated iteratively over at most RBMAX nodes. */
#ifndef SH_N
#define SH_N 0
#define SH_K 0
#endif
#define RBMAX (SH_N + 2)      /* loop bounds of the oracle: the shape has SH_N nodes, one more may be inserted */
size_t nondet_size_t(void);
int nondet_int(void);
#define HK(T, hook, p) (&((struct T *)(p))->hook)

/* Checks a red-black tree with node type T / hook member `hook` against the expected sequence E[0..m-1]. */
#define RB_CHECKER(NAME, T, hook) \
static void NAME(void *root, struct T **E, size_t m, struct T *first) \
{ \
	__CPROVER_assert((root == 0) == (m == 0), "tree is empty iff nothing is contained"); \
	__CPROVER_assert(first == (m ? E[0] : 0), "first() is the smallest element"); \
	if (m == 0) return; \
	__CPROVER_assert(HK(T, hook, root)->parent == 0 && HK(T, hook, root)->color == frg__redblack_color_type_black, "root has no parent and is black"); \
	int bh = -1; \
	for (size_t i = 0; i < RBMAX; i++) { \
		if (i >= m) break; \
		struct T *n = E[i]; struct rbhook *h = HK(T, hook, n); \
		__CPROVER_assert(h->successor == (i + 1 < m ? (void *)E[i + 1] : (void *)0), "successor links follow the expected order"); \
		__CPROVER_assert(h->predecessor == (i > 0 ? (void *)E[i - 1] : (void *)0), "predecessor is the inverse of successor"); \
		__CPROVER_assert(h->color == frg__redblack_color_type_red || h->color == frg__redblack_color_type_black, "every contained node is red or black"); \
		if (h->left) __CPROVER_assert(HK(T, hook, h->left)->parent == n, "left child's parent link"); \
		if (h->right) __CPROVER_assert(HK(T, hook, h->right)->parent == n, "right child's parent link"); \
		if (h->parent) __CPROVER_assert((HK(T, hook, h->parent)->left == n) != (HK(T, hook, h->parent)->right == n), "node is exactly one child of its parent"); \
		else __CPROVER_assert(root == n, "only the root has no parent"); \
		if (h->color == frg__redblack_color_type_red) \
			__CPROVER_assert(h->parent != 0 && HK(T, hook, h->parent)->color == frg__redblack_color_type_black, "no red node has a red parent"); \
		/* in-order successor computed from left/right/parent links only */ \
		void *s; \
		if (h->right) { s = h->right; for (int d = 0; d < RBMAX; d++) { if (!HK(T, hook, s)->left) break; s = HK(T, hook, s)->left; } } \
		else { void *c = n; s = h->parent; for (int d = 0; d < RBMAX; d++) { if (!s || HK(T, hook, s)->left == c) break; c = s; s = HK(T, hook, s)->parent; } } \
		__CPROVER_assert(s == (i + 1 < m ? (void *)E[i + 1] : (void *)0), "in-order walk over left/right links equals the successor list"); \
		/* black height and depth */ \
		int blacks = 0, depth = 0; void *a = n; \
		for (int d = 0; d < RBMAX; d++) { if (!a) break; if (HK(T, hook, a)->color == frg__redblack_color_type_black) blacks++; depth++; a = HK(T, hook, a)->parent; } \
		__CPROVER_assert(a == 0, "parent chain reaches the root"); \
		if (!h->left || !h->right) { if (bh < 0) bh = blacks; __CPROVER_assert(blacks == bh, "every path to a leaf has the same number of black nodes"); } \
		int lim = 0; for (size_t x = m + 1; x > 1; x >>= 1) lim += 2;   /* 2*floor(log2(m+1)) */ \
		__CPROVER_assert(depth <= lim, "height is at most 2*log2(n+1)"); \
	} \
}
RB_CHECKER(rb_check_node, frgv_node, hook)
RB_CHECKER(rb_check_ival, frgv_ival, rb)

#define HOOK_IS_RESET(h) ((h)->parent == 0 && (h)->left == 0 && (h)->right == 0 && (h)->predecessor == 0 && (h)->successor == 0)

static struct frgv_node RBN[RBMAX];
static struct frgv_ival IVN[RBMAX];
static struct frgv_item PHN[RBMAX];
