UNIT = dict(
    name='trees',
    roots=['rec:rb', 'rec:rb_base', 'rec:rbo', 'rec:rbo_base', 'rec:it*', 'rec:ph'],
    bodyless_ok=(),
    obligations=[
        dict(id='rb.rotateLeft', entry='h_rb_rotateLeft', enforce=['rb_base_rotateLeft/rb_base_rotateLeft_contract'],
             cls='P', serves=['C06'], expect_kinds=['postcondition', 'assigns', 'FRG_ASSERT']),
        dict(id='rb.rotateRight', entry='h_rb_rotateRight', enforce=['rb_base_rotateRight/rb_base_rotateRight_contract'],
             cls='P', serves=['C06'], expect_kinds=['postcondition', 'assigns', 'FRG_ASSERT']),
    ],
)
