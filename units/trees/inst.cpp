// Instantiation TU for the tree units (C06 rbtree, C07 interval tree, C08 pairing heap).
// Only parameter types are declared here; every function body comes from /repo/include.
#include <frg/rbtree.hpp>
#include <frg/interval_tree.hpp>
#include <frg/pairing_heap.hpp>
#include <frg/intrusive.hpp>

namespace frgv {

// ---- C06: red-black tree over nodes with an int key; seq is a ghost insertion stamp
struct node {
	int key;
	unsigned seq;
	frg::rbtree_hook hook;
};
struct node_less {
	bool operator() (const node &a, const node &b) const;   // stub: a.key < b.key (contract in stubs)
};
using A_rb = frg::rbtree<node, &node::hook, node_less>;
using A_rb_base = frg::_redblack::tree_crtp_struct<A_rb, node, &node::hook, frg::null_aggregator>;
using A_rbo = frg::rbtree_order<node, &node::hook>;
using A_rbo_base = frg::_redblack::tree_crtp_struct<A_rbo, node, &node::hook, frg::null_aggregator>;
using A_rbhook = frg::rbtree_hook;

// ---- C07: interval tree
typedef signed char ep_t;      // endpoint type: overlap answers depend only on the order of endpoints, 256 values embed every
                               // configuration of the <= 20 endpoints considered; a narrow type keeps the SAT queries small
struct ival {
	ep_t lo;
	ep_t hi;
	unsigned visits;          // ghost: number of callback invocations
	frg::rbtree_hook rb;
	frg::interval_hook<ep_t> ih;
};
using A_it = frg::interval_tree<ival, ep_t, &ival::lo, &ival::hi, &ival::rb, &ival::ih>;
using A_it_rb = A_it::binary_tree;
using A_it_rb_base = frg::_redblack::tree_crtp_struct<A_it_rb, ival, &ival::rb, A_it::aggregator>;
struct visit_fn {
	void operator() (ival *n);        // stub: n->visits++
};

// ---- C08: pairing heap
struct item {
	int prio;
	unsigned in_heap;        // ghost
	frg::pairing_heap_hook<item> hook;
};
struct item_cmp {
	bool operator() (const item *a, const item *b);   // stub: a->prio < b->prio
};
using A_ph = frg::pairing_heap<item, frg::locate_member<item, frg::pairing_heap_hook<item>, &item::hook>, item_cmp>;
using A_phhook = frg::pairing_heap_hook<item>;

void frgv_force(A_it &t, visit_fn f) {
	t.for_overlaps(f, ep_t(1), ep_t(2));
	t.for_overlaps(f, ep_t(1));
}

} // namespace frgv

template struct frg::_redblack::tree_struct<frgv::node, &frgv::node::hook, frgv::node_less, frg::null_aggregator>;
template struct frg::_redblack::tree_crtp_struct<frgv::A_rb, frgv::node, &frgv::node::hook, frg::null_aggregator>;
template struct frg::_redblack::tree_order_struct<frgv::node, &frgv::node::hook, frg::null_aggregator>;
template struct frg::_redblack::tree_crtp_struct<frgv::A_rbo, frgv::node, &frgv::node::hook, frg::null_aggregator>;
template struct frg::interval_tree<frgv::ival, frgv::ep_t, &frgv::ival::lo, &frgv::ival::hi, &frgv::ival::rb, &frgv::ival::ih>;
template struct frg::_redblack::tree_struct<frgv::ival, &frgv::ival::rb, frgv::A_it::lb_less, frgv::A_it::aggregator>;
template struct frg::_redblack::tree_crtp_struct<frgv::A_it_rb, frgv::ival, &frgv::ival::rb, frgv::A_it::aggregator>;
template struct frg::_pairing::pairing_heap<frgv::item, frg::locate_member<frgv::item, frg::pairing_heap_hook<frgv::item>, &frgv::item::hook>, frgv::item_cmp>;
