/* Shape harnesses: one CBMC run = one concrete shape (SH_N nodes, shape number SH_K), symbolic payload. */
#ifndef SH_N
#define SH_N 0
#define SH_K 0
#endif

/* ---------------------------------------------------------------- C06: rbtree with comparator
 * Keys are concrete: node i holds key 2(i+1). Insert and remove only ever compare keys, so trying every new key
 * 1..2N+1 (every rank, with and without a tie) from every shape is exhaustive over key multisets up to order. */
static void rb_setup(struct rb *t)
{
	struct frgv_node_less less; memset(t, 0, sizeof(*t)); rb_ctor(t, less);
	for (int i = 0; i < RBMAX; i++) { RBN[i].key = 2 * (i + 1); RBN[i].seq = (unsigned)i; }
	SHAPE_BUILD(rb, SH_N, SH_K)(&t->__b0._root);
}
/* expected sequence after inserting x: x goes after every element whose key is <= x's key (equal keys in insertion order) */
static size_t rb_expect_insert(struct frgv_node **E, size_t m, struct frgv_node *x)
{
	size_t p = 0;
	for (size_t i = 0; i < RBMAX; i++) if (i < m && E[i]->key <= x->key) p = i + 1;
	for (size_t i = RBMAX - 1; i > 0; i--) if (i <= m && i > p) E[i] = E[i - 1];
	E[p] = x;
	return m + 1;
}
void h_rb_shape_insert(void)
{
	struct rb t; struct frgv_node *E[RBMAX + 1];
	rb_setup(&t); for (int i = 0; i < SH_N; i++) E[i] = &RBN[i];
	rb_check_node(t.__b0._root, E, SH_N, rb_base_first(&t.__b0));           /* the built shape satisfies the oracle */
	for (int newkey = 1; newkey <= 2 * SH_N + 1; newkey++) {
		rb_setup(&t); for (int i = 0; i < SH_N; i++) E[i] = &RBN[i];
		struct frgv_node *x = &RBN[SH_N]; rbhook_ctor_default(&x->hook); x->key = newkey;
		rb_insert(&t, x);
		size_t m = rb_expect_insert(E, SH_N, x);
		rb_check_node(t.__b0._root, E, m, rb_base_first(&t.__b0));
	}
	FRGV_CANARY();
}
void h_rb_shape_remove(void)
{
	struct rb t; struct frgv_node *E[RBMAX + 1];
	for (size_t r = 0; r < SH_N; r++) {
		rb_setup(&t); size_t m = 0;
		for (size_t i = 0; i < SH_N; i++) if (i != r) E[m++] = &RBN[i];
		rb_base_remove(&t.__b0, &RBN[r]);
		rb_check_node(t.__b0._root, E, m, rb_base_first(&t.__b0));
		__CPROVER_assert(HOOK_IS_RESET(&RBN[r].hook), "the removed element's hook is fully reset");
		/* ... so that it can be inserted again (it now comes after an equal key, if any) */
		rb_insert(&t, &RBN[r]);
		m = rb_expect_insert(E, m, &RBN[r]);
		rb_check_node(t.__b0._root, E, m, rb_base_first(&t.__b0));
	}
	FRGV_CANARY();
}
/* comparator-less variant: insert(before, x) places x immediately before `before` (or last when null) */
void h_rb_shape_order(void)
{
	struct rbo t; struct frgv_node *E[RBMAX + 1];
	for (size_t b = 0; b <= SH_N; b++) {                                      /* b == SH_N: before == null */
		memset(&t, 0, sizeof(t)); rbo_base_ctor_default(&t.__b0);
		SHAPE_BUILD(rb, SH_N, SH_K)(&t.__b0._root);
		struct frgv_node *x = &RBN[SH_N]; rbhook_ctor_default(&x->hook);
		size_t m = 0;
		for (size_t i = 0; i < SH_N + 1; i++) { if (i == b) E[m++] = x; if (i < SH_N) E[m++] = &RBN[i]; }
		rbo_insert(&t, b < SH_N ? &RBN[b] : 0, x);
		rb_check_node(t.__b0._root, E, m, rbo_base_first(&t.__b0));
	}
	FRGV_CANARY();
}

/* ---------------------------------------------------------------- C07: interval tree */
static void it_setup(struct it *t)
{
	memset(t, 0, sizeof(*t)); struct it_lb_less less; it_rb_ctor(&t->_rbtree, less);
	/* lower bounds are concrete (structure depends only on their order, cf. C06); upper bounds and the query stay symbolic */
	for (int i = 0; i < RBMAX; i++) { IVN[i].lo = (signed char)(2 * (i + 1)); IVN[i].hi = (signed char)nondet_int(); IVN[i].visits = 0; __CPROVER_assume(IVN[i].lo <= IVN[i].hi); }
	SHAPE_BUILD(it, SH_N, SH_K)(&t->_rbtree.__b0._root);
}
static void it_query_check(struct it *t, struct frgv_ival **S, size_t m)
{
	signed char lb = (signed char)nondet_int(), ub = (signed char)nondet_int(); __CPROVER_assume(lb <= ub);
	_Bool single = nondet_int() & 1; if (single) ub = lb;
	for (size_t i = 0; i < RBMAX; i++) if (i < m) S[i]->visits = 0;
	struct frgv_visit_fn fn;
	if (single) it_for_overlaps_1(t, fn, lb); else it_for_overlaps__frgv_visit_fn(t, fn, lb, ub);
	for (size_t i = 0; i < RBMAX; i++) if (i < m) {
		_Bool ov = S[i]->lo <= ub && lb <= S[i]->hi;
		__CPROVER_assert(S[i]->visits == (ov ? 1u : 0u), "callback runs exactly once for every stored interval with lo <= ub and lb <= hi, and for no other");
	}
}
static void it_max_check(struct frgv_ival **S, size_t m)
{
	for (size_t i = 0; i < RBMAX; i++) if (i < m) {
		signed char mx = S[i]->hi;
		if (S[i]->rb.left && ((struct frgv_ival *)S[i]->rb.left)->ih.subtree_max > mx) mx = ((struct frgv_ival *)S[i]->rb.left)->ih.subtree_max;
		if (S[i]->rb.right && ((struct frgv_ival *)S[i]->rb.right)->ih.subtree_max > mx) mx = ((struct frgv_ival *)S[i]->rb.right)->ih.subtree_max;
		__CPROVER_assert(S[i]->ih.subtree_max == mx, "subtree_max is the maximum upper bound in the subtree");
	}
}
void h_it_shape_query(void)
{
	struct it t; it_setup(&t);
	struct frgv_ival *S[RBMAX + 1]; for (int i = 0; i < SH_N; i++) S[i] = &IVN[i];
	it_query_check(&t, S, SH_N);
	FRGV_CANARY();
}
#ifndef SH_P
#define SH_P 1
#endif
void h_it_shape_insert(void)        /* SH_P: lower bound of the new interval (1..2N+1: every rank, with and without a tie) */
{
	struct it t; it_setup(&t);
	struct frgv_ival *S[RBMAX + 1]; for (int i = 0; i < SH_N; i++) S[i] = &IVN[i];
	struct frgv_ival *x = &IVN[SH_N]; rbhook_ctor_default(&x->rb); x->lo = SH_P; x->hi = (signed char)nondet_int(); __CPROVER_assume(x->lo <= x->hi);
	it_insert(&t, x); S[SH_N] = x;
	it_max_check(S, SH_N + 1);
	it_query_check(&t, S, SH_N + 1);
	FRGV_CANARY();
}
void h_it_shape_remove(void)        /* SH_P: index of the removed interval */
{
	struct it t; it_setup(&t);
	size_t r = SH_P;
	struct frgv_ival *S[RBMAX + 1]; size_t m = 0; for (size_t i = 0; i < SH_N; i++) if (i != r) S[m++] = &IVN[i];
	it_remove(&t, &IVN[r]);
	it_max_check(S, m);
	it_query_check(&t, S, m);
	__CPROVER_assert(IVN[r].visits == 0, "a removed interval is not reported");
	FRGV_CANARY();
}

/* ---------------------------------------------------------------- C08: pairing heap */
/* Oracle without pointer chasing through a symbolic work list: every element index is examined on its own.
 * An element is contained iff it is the root or has a backlink; containment must reach the root by climbing backlinks. */
static size_t ph_walk(struct ph *h)
{
	size_t cnt = 0;
	if (h->_root) __CPROVER_assert(h->_root->hook.backlink == 0 && h->_root->hook.sibling == 0, "root has no backlink and no sibling");
	for (int i = 0; i < RBMAX; i++) {
		struct frgv_item *n = &PHN[i];
		_Bool in = (h->_root == n) || n->hook.backlink != 0;
		n->in_heap = in;
		if (!in) { __CPROVER_assert(n->hook.child == 0 && n->hook.sibling == 0, "an element outside the heap has a reset hook"); continue; }
		cnt++;
		if (n->hook.child) __CPROVER_assert(n->hook.child->hook.backlink == n, "first child's backlink is its parent");
		if (n->hook.sibling) __CPROVER_assert(n->hook.sibling->hook.backlink == n, "next sibling's backlink is its previous sibling");
		if (n->hook.backlink) __CPROVER_assert((n->hook.backlink->hook.child == n) != (n->hook.backlink->hook.sibling == n), "backlink target links back exactly once");
		/* climb: previous siblings up to the parent, then on to the root */
		struct frgv_item *cur = n; struct frgv_item *parent = 0;
		for (int d = 0; d < RBMAX; d++) {
			struct frgv_item *b = cur->hook.backlink;
			if (!b) break;
			if (!parent && b->hook.child == cur) parent = b;
			cur = b;
		}
		__CPROVER_assert(cur == h->_root, "climbing backlinks from a contained element ends at the root (no detached cycles)");
		if (parent) __CPROVER_assert(!frgv_item_cmp_op_call((void *)0, parent, n), "no child is ordered after its parent");
	}
	return cnt;
}
static void ph_top_check(struct ph *h, size_t expect)
{
	size_t cnt = ph_walk(h);
	__CPROVER_assert(cnt == expect, "exactly the expected elements are contained");
	__CPROVER_assert(ph_empty(h) == (expect == 0), "empty() iff nothing is contained");
	if (expect) {
		struct frgv_item *top = ph_top(h);
		__CPROVER_assert(top != 0 && top->in_heap, "top() is a contained element");
		for (int i = 0; i < RBMAX; i++) if (PHN[i].in_heap) __CPROVER_assert(!frgv_item_cmp_op_call((void *)0, top, &PHN[i]), "the comparator orders top() before no contained element");
	}
}
static void ph_setup(struct ph *h)
{
	memset(h, 0, sizeof(*h)); ph_ctor_default(h);
	for (int i = 0; i < RBMAX; i++) { PHN[i].prio = nondet_int(); PHN[i].hook.child = 0; PHN[i].hook.backlink = 0; PHN[i].hook.sibling = 0; }
	SHAPE_BUILD(ph, SH_N, SH_K)(h);
}
void h_ph_shape_push(void)
{
	struct ph h; ph_setup(&h); ph_top_check(&h, SH_N);
	ph_push(&h, &PHN[SH_N]);
	ph_top_check(&h, SH_N + 1);
	__CPROVER_assert(PHN[SH_N].in_heap, "the pushed element is contained");
	FRGV_CANARY();
}
void h_ph_shape_pop(void)
{
	struct ph h; ph_setup(&h);
	struct frgv_item *top = ph_top(&h);
	ph_pop(&h);
	ph_top_check(&h, SH_N - 1);
	__CPROVER_assert(!top->in_heap && top->hook.child == 0 && top->hook.backlink == 0 && top->hook.sibling == 0, "pop removes exactly the element top() returned and resets its hook");
	FRGV_CANARY();
	ph_push(&h, top); ph_top_check(&h, SH_N);                  /* ... so that it can be pushed again */
}
void h_ph_shape_remove(void)
{
	struct ph h; ph_setup(&h);
	size_t r = SH_P;                                           /* index (pre-order) of the removed element */
	ph_remove(&h, &PHN[r]);
	ph_top_check(&h, SH_N - 1);
	__CPROVER_assert(!PHN[r].in_heap && PHN[r].hook.child == 0 && PHN[r].hook.backlink == 0 && PHN[r].hook.sibling == 0, "remove(x) removes exactly x and resets its hook");
	FRGV_CANARY();
	ph_push(&h, &PHN[r]); ph_top_check(&h, SH_N);
}
