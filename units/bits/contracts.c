/* Contracts for bitset<N>, array<T,N>, mt19937, pcg_basic32, insertion_sort (C18).
 *
 * Ghost state (set by the harness before the call, never written by frigg):
 *   frgv_g    ghost bit index (< N): "for all bits b" is proved as "for the arbitrary bit frgv_g"
 *   frgv_oldN copy of *this on entry (tied to *this by the precondition)
 *   frgv_rhsN copy of the right-hand operand on entry
 */

#define WORDS(N) (((N) + 63) / 64)
#define TB(p, b) ((((p)->buffer[(b) / 64]) >> ((b) % 64)) & 1ULL)
/* representation invariant: bits at positions >= N of the last word are zero */
#define REP_OK(p, N) (((N) % 64) == 0 || (((p)->buffer[(N) / 64]) >> ((N) % 64)) == 0)
#define EQW1(a, b) ((a)->buffer[0] == (b)->buffer[0])
#define EQW2(a, b) (EQW1(a, b) && (a)->buffer[1] == (b)->buffer[1])
#define EQW3(a, b) (EQW2(a, b) && (a)->buffer[2] == (b)->buffer[2])
#define EQW4(a, b) (EQW3(a, b) && (a)->buffer[3] == (b)->buffer[3])
#define OR1(a) ((a)->buffer[0])
#define OR2(a) (OR1(a) | (a)->buffer[1])
#define OR3(a) (OR2(a) | (a)->buffer[2])
#define OR4(a) (OR3(a) | (a)->buffer[3])
#define PC1(a) ((size_t)__builtin_popcountll((a)->buffer[0]))
#define PC2(a) (PC1(a) + (size_t)__builtin_popcountll((a)->buffer[1]))
#define PC3(a) (PC2(a) + (size_t)__builtin_popcountll((a)->buffer[2]))
#define PC4(a) (PC3(a) + (size_t)__builtin_popcountll((a)->buffer[3]))
#define CAT_(a, b) a##b
#define CAT(a, b) CAT_(a, b)

/* full words all-ones (words below N/64) */
#define FULL1(a, N) ((N) / 64 < 1 || (a)->buffer[0] == ~0ULL)
#define FULL2(a, N) (FULL1(a, N) && ((N) / 64 < 2 || (a)->buffer[1] == ~0ULL))
#define FULL3(a, N) (FULL2(a, N) && ((N) / 64 < 3 || (a)->buffer[2] == ~0ULL))
#define FULL4(a, N) (FULL3(a, N) && ((N) / 64 < 4 || (a)->buffer[3] == ~0ULL))
#define LASTMASK(N) ((1ULL << ((N) % 64)) - 1)

#define THIS_OK(T, N, W) \
	__CPROVER_requires(__CPROVER_is_fresh(this, sizeof(struct T))) \
	__CPROVER_requires(REP_OK(this, N)) \
	__CPROVER_requires(CAT(EQW, W)(this, &frgv_old_##T)) \
	__CPROVER_requires(frgv_g < (N))
#define RHS_OK(T, N, W) \
	__CPROVER_requires(__CPROVER_is_fresh(rhs, sizeof(struct T))) \
	__CPROVER_requires(REP_OK(rhs, N)) \
	__CPROVER_requires(CAT(EQW, W)(rhs, &frgv_rhs_##T))
#define MUTATES \
	__CPROVER_assigns(__CPROVER_object_whole(this))

#define BS_CONTRACTS(N, W, T) \
struct T frgv_old_##T, frgv_rhs_##T; \
/* shifts: for EVERY amount pos in 2^64 */ \
struct T *T##_op_shl_assign_contract(struct T *this, unsigned long pos) \
THIS_OK(T, N, W) MUTATES \
__CPROVER_ensures(__CPROVER_return_value == this) \
__CPROVER_ensures(TB(this, frgv_g) == (pos <= frgv_g ? TB(&frgv_old_##T, frgv_g - (pos <= frgv_g ? pos : 0)) : 0)) \
__CPROVER_ensures(REP_OK(this, N)); \
struct T *T##_op_shr_assign_contract(struct T *this, unsigned long pos) \
THIS_OK(T, N, W) MUTATES \
__CPROVER_ensures(__CPROVER_return_value == this) \
__CPROVER_ensures(TB(this, frgv_g) == ((pos < (N) && frgv_g + pos < (N)) ? TB(&frgv_old_##T, (pos < (N) && frgv_g + pos < (N)) ? frgv_g + pos : 0) : 0)) \
__CPROVER_ensures(REP_OK(this, N)); \
/* single-bit and whole-set mutators */ \
struct T *T##_set_1_contract(struct T *this, unsigned long pos, _Bool val) \
THIS_OK(T, N, W) MUTATES \
__CPROVER_requires(pos < (N)) \
__CPROVER_ensures(__CPROVER_return_value == this) \
__CPROVER_ensures(TB(this, frgv_g) == (frgv_g == pos ? (unsigned long long)val : TB(&frgv_old_##T, frgv_g))) \
__CPROVER_ensures(REP_OK(this, N)); \
struct T *T##_reset_1_contract(struct T *this, unsigned long pos) \
THIS_OK(T, N, W) MUTATES \
__CPROVER_requires(pos < (N)) \
__CPROVER_ensures(__CPROVER_return_value == this) \
__CPROVER_ensures(TB(this, frgv_g) == (frgv_g == pos ? 0 : TB(&frgv_old_##T, frgv_g))) \
__CPROVER_ensures(REP_OK(this, N)); \
struct T *T##_flip_1_contract(struct T *this, unsigned long pos) \
THIS_OK(T, N, W) MUTATES \
__CPROVER_requires(pos < (N)) \
__CPROVER_ensures(__CPROVER_return_value == this) \
__CPROVER_ensures(TB(this, frgv_g) == (frgv_g == pos ? !TB(&frgv_old_##T, frgv_g) : TB(&frgv_old_##T, frgv_g))) \
__CPROVER_ensures(REP_OK(this, N)); \
struct T *T##_set_0_contract(struct T *this) \
THIS_OK(T, N, W) MUTATES \
__CPROVER_ensures(__CPROVER_return_value == this) \
__CPROVER_ensures(TB(this, frgv_g) == 1) \
__CPROVER_ensures(REP_OK(this, N)); \
struct T *T##_reset_0_contract(struct T *this) \
THIS_OK(T, N, W) MUTATES \
__CPROVER_ensures(__CPROVER_return_value == this) \
__CPROVER_ensures(TB(this, frgv_g) == 0) \
__CPROVER_ensures(REP_OK(this, N)); \
struct T *T##_flip_0_contract(struct T *this) \
THIS_OK(T, N, W) MUTATES \
__CPROVER_ensures(__CPROVER_return_value == this) \
__CPROVER_ensures(TB(this, frgv_g) == !TB(&frgv_old_##T, frgv_g)) \
__CPROVER_ensures(REP_OK(this, N)); \
/* binary operators */ \
struct T *T##_op_and_assign_contract(struct T *this, struct T *rhs) \
THIS_OK(T, N, W) RHS_OK(T, N, W) MUTATES \
__CPROVER_ensures(__CPROVER_return_value == this) \
__CPROVER_ensures(TB(this, frgv_g) == (TB(&frgv_old_##T, frgv_g) & TB(&frgv_rhs_##T, frgv_g))) \
__CPROVER_ensures(REP_OK(this, N) && CAT(EQW, W)(rhs, &frgv_rhs_##T)); \
struct T *T##_op_or_assign_contract(struct T *this, struct T *rhs) \
THIS_OK(T, N, W) RHS_OK(T, N, W) MUTATES \
__CPROVER_ensures(__CPROVER_return_value == this) \
__CPROVER_ensures(TB(this, frgv_g) == (TB(&frgv_old_##T, frgv_g) | TB(&frgv_rhs_##T, frgv_g))) \
__CPROVER_ensures(REP_OK(this, N) && CAT(EQW, W)(rhs, &frgv_rhs_##T)); \
struct T *T##_op_xor_assign_contract(struct T *this, struct T *rhs) \
THIS_OK(T, N, W) RHS_OK(T, N, W) MUTATES \
__CPROVER_ensures(__CPROVER_return_value == this) \
__CPROVER_ensures(TB(this, frgv_g) == (TB(&frgv_old_##T, frgv_g) ^ TB(&frgv_rhs_##T, frgv_g))) \
__CPROVER_ensures(REP_OK(this, N) && CAT(EQW, W)(rhs, &frgv_rhs_##T)); \
/* queries: nothing is assigned */ \
_Bool T##_test_contract(struct T *this, unsigned long pos) \
THIS_OK(T, N, W) __CPROVER_assigns() \
__CPROVER_requires(pos < (N)) \
__CPROVER_ensures(__CPROVER_return_value == (TB(this, pos) != 0)); \
_Bool T##_op_index_0_contract(struct T *this, unsigned long pos) \
THIS_OK(T, N, W) __CPROVER_assigns() \
__CPROVER_requires(pos < (N)) \
__CPROVER_ensures(__CPROVER_return_value == (TB(this, pos) != 0)); \
size_t T##_count_contract(struct T *this) \
THIS_OK(T, N, W) __CPROVER_assigns() \
__CPROVER_ensures(__CPROVER_return_value == CAT(PC, W)(this)); \
size_t T##_size_contract(struct T *this) \
THIS_OK(T, N, W) __CPROVER_assigns() \
__CPROVER_ensures(__CPROVER_return_value == (N)); \
_Bool T##_any_contract(struct T *this) \
THIS_OK(T, N, W) __CPROVER_assigns() \
__CPROVER_ensures(__CPROVER_return_value == (CAT(OR, W)(this) != 0)); \
_Bool T##_none_contract(struct T *this) \
THIS_OK(T, N, W) __CPROVER_assigns() \
__CPROVER_ensures(__CPROVER_return_value == (CAT(OR, W)(this) == 0)); \
_Bool T##_all_contract(struct T *this) \
THIS_OK(T, N, W) __CPROVER_assigns() \
__CPROVER_ensures(__CPROVER_return_value == (CAT(FULL, W)(this, N) && (((N) % 64) == 0 || this->buffer[(N) / 64] == LASTMASK(N)))); \
_Bool T##_op_eq_contract(struct T *this, struct T *rhs) \
THIS_OK(T, N, W) RHS_OK(T, N, W) __CPROVER_assigns() \
__CPROVER_ensures(__CPROVER_return_value == CAT(EQW, W)(this, rhs)); \
/* construction */ \
void T##_ctor_default_contract(struct T *this) \
__CPROVER_requires(__CPROVER_is_fresh(this, sizeof(struct T))) \
__CPROVER_requires(frgv_g < (N)) MUTATES \
__CPROVER_ensures(TB(this, frgv_g) == 0 && REP_OK(this, N)); \
void T##_ctor_contract(struct T *this, unsigned long long val) \
__CPROVER_requires(__CPROVER_is_fresh(this, sizeof(struct T))) \
__CPROVER_requires(frgv_g < (N)) MUTATES \
__CPROVER_ensures(TB(this, frgv_g) == (frgv_g < 64 ? ((val >> (frgv_g < 64 ? frgv_g : 0)) & 1ULL) : 0)) \
__CPROVER_ensures(REP_OK(this, N)); \
/* proxy reference */ \
struct T##_reference *T##_reference_assign_contract(struct T##_reference *this, _Bool x) \
__CPROVER_requires(__CPROVER_is_fresh(this, sizeof(*this)) && __CPROVER_is_fresh(this->s, sizeof(struct T))) \
__CPROVER_requires(this->index < (N) && frgv_g < (N) && REP_OK(this->s, N) && CAT(EQW, W)(this->s, &frgv_old_##T)) \
__CPROVER_assigns(__CPROVER_object_whole(this->s)) \
__CPROVER_ensures(__CPROVER_return_value == this) \
__CPROVER_ensures(TB(this->s, frgv_g) == (frgv_g == this->index ? (unsigned long long)x : TB(&frgv_old_##T, frgv_g))) \
__CPROVER_ensures(REP_OK(this->s, N)); \
_Bool T##_reference_conv_bool_contract(struct T##_reference *this) \
__CPROVER_requires(__CPROVER_is_fresh(this, sizeof(*this)) && __CPROVER_is_fresh(this->s, sizeof(struct T))) \
__CPROVER_requires(this->index < (N)) \
__CPROVER_assigns() \
__CPROVER_ensures(__CPROVER_return_value == (TB(this->s, this->index) != 0)); \
_Bool T##_reference_op_compl_contract(struct T##_reference *this) \
__CPROVER_requires(__CPROVER_is_fresh(this, sizeof(*this)) && __CPROVER_is_fresh(this->s, sizeof(struct T))) \
__CPROVER_requires(this->index < (N)) \
__CPROVER_assigns() \
__CPROVER_ensures(__CPROVER_return_value == (TB(this->s, this->index) == 0)); \
struct T##_reference *T##_reference_flip_contract(struct T##_reference *this) \
__CPROVER_requires(__CPROVER_is_fresh(this, sizeof(*this)) && __CPROVER_is_fresh(this->s, sizeof(struct T))) \
__CPROVER_requires(this->index < (N) && frgv_g < (N) && REP_OK(this->s, N) && CAT(EQW, W)(this->s, &frgv_old_##T)) \
__CPROVER_assigns(__CPROVER_object_whole(this->s)) \
__CPROVER_ensures(__CPROVER_return_value == this) \
__CPROVER_ensures(TB(this->s, frgv_g) == (frgv_g == this->index ? !TB(&frgv_old_##T, frgv_g) : TB(&frgv_old_##T, frgv_g))) \
__CPROVER_ensures(REP_OK(this->s, N));

BS_CONTRACTS(1, 1, bs1)
BS_CONTRACTS(7, 1, bs7)
BS_CONTRACTS(63, 1, bs63)
BS_CONTRACTS(64, 1, bs64)
BS_CONTRACTS(65, 2, bs65)
BS_CONTRACTS(127, 2, bs127)
BS_CONTRACTS(128, 2, bs128)
BS_CONTRACTS(129, 3, bs129)
BS_CONTRACTS(200, 4, bs200)

/* ---------------------------------------------------------------------------------------------
 * frg::array<int, N>: accessors return the addresses std::array prescribes (reference identity)
 */
#define ARR_CONTRACTS(T, N) \
int *T##_front_0_contract(struct T *this) __CPROVER_requires(__CPROVER_is_fresh(this, sizeof(*this))) __CPROVER_assigns() \
	__CPROVER_ensures(__CPROVER_return_value == &this->_stor[0]); \
int *T##_front_1_contract(struct T *this) __CPROVER_requires(__CPROVER_is_fresh(this, sizeof(*this))) __CPROVER_assigns() \
	__CPROVER_ensures(__CPROVER_return_value == &this->_stor[0]); \
int *T##_back_0_contract(struct T *this) __CPROVER_requires(__CPROVER_is_fresh(this, sizeof(*this))) __CPROVER_assigns() \
	__CPROVER_ensures(__CPROVER_return_value == &this->_stor[(N) - 1]); \
int *T##_back_1_contract(struct T *this) __CPROVER_requires(__CPROVER_is_fresh(this, sizeof(*this))) __CPROVER_assigns() \
	__CPROVER_ensures(__CPROVER_return_value == &this->_stor[(N) - 1]); \
int *T##_op_index_0_contract(struct T *this, unsigned long pos) __CPROVER_requires(__CPROVER_is_fresh(this, sizeof(*this)) && pos < (N)) \
	__CPROVER_assigns() __CPROVER_ensures(__CPROVER_return_value == &this->_stor[pos]); \
int *T##_op_index_1_contract(struct T *this, unsigned long pos) __CPROVER_requires(__CPROVER_is_fresh(this, sizeof(*this)) && pos < (N)) \
	__CPROVER_assigns() __CPROVER_ensures(__CPROVER_return_value == &this->_stor[pos]); \
int *T##_begin_0_contract(struct T *this) __CPROVER_requires(__CPROVER_is_fresh(this, sizeof(*this))) __CPROVER_assigns() \
	__CPROVER_ensures(__CPROVER_return_value == this->_stor); \
int *T##_begin_1_contract(struct T *this) __CPROVER_requires(__CPROVER_is_fresh(this, sizeof(*this))) __CPROVER_assigns() \
	__CPROVER_ensures(__CPROVER_return_value == this->_stor); \
int *T##_cbegin_contract(struct T *this) __CPROVER_requires(__CPROVER_is_fresh(this, sizeof(*this))) __CPROVER_assigns() \
	__CPROVER_ensures(__CPROVER_return_value == this->_stor); \
int *T##_data_0_contract(struct T *this) __CPROVER_requires(__CPROVER_is_fresh(this, sizeof(*this))) __CPROVER_assigns() \
	__CPROVER_ensures(__CPROVER_return_value == this->_stor); \
int *T##_data_1_contract(struct T *this) __CPROVER_requires(__CPROVER_is_fresh(this, sizeof(*this))) __CPROVER_assigns() \
	__CPROVER_ensures(__CPROVER_return_value == this->_stor); \
int *T##_end_0_contract(struct T *this) __CPROVER_requires(__CPROVER_is_fresh(this, sizeof(*this))) __CPROVER_assigns() \
	__CPROVER_ensures(__CPROVER_return_value == this->_stor + (N)); \
int *T##_end_1_contract(struct T *this) __CPROVER_requires(__CPROVER_is_fresh(this, sizeof(*this))) __CPROVER_assigns() \
	__CPROVER_ensures(__CPROVER_return_value == this->_stor + (N)); \
int *T##_cend_contract(struct T *this) __CPROVER_requires(__CPROVER_is_fresh(this, sizeof(*this))) __CPROVER_assigns() \
	__CPROVER_ensures(__CPROVER_return_value == this->_stor + (N)); \
unsigned long T##_size_contract(struct T *this) __CPROVER_requires(__CPROVER_is_fresh(this, sizeof(*this))) __CPROVER_assigns() \
	__CPROVER_ensures(__CPROVER_return_value == (N)); \
unsigned long T##_max_size_contract(struct T *this) __CPROVER_requires(__CPROVER_is_fresh(this, sizeof(*this))) __CPROVER_assigns() \
	__CPROVER_ensures(__CPROVER_return_value == (N)); \
_Bool T##_empty_contract(struct T *this) __CPROVER_requires(__CPROVER_is_fresh(this, sizeof(*this))) __CPROVER_assigns() \
	__CPROVER_ensures(__CPROVER_return_value == ((N) == 0));

ARR_CONTRACTS(arr3, 3)
ARR_CONTRACTS(arr1, 1)

/* ---------------------------------------------------------------------------------------------
 * pcg_basic32 (O'Neill's pcg32, XSH-RR 64/32): the published step and output functions
 */
#define PCG_MULT 6364136223846793005ULL
#define PCG_XSH(o) ((uint32_t)((((o) >> 18u) ^ (o)) >> 27u))
#define PCG_ROT(o) ((uint32_t)((o) >> 59u))
#define PCG_OUT(o) ((PCG_XSH(o) >> PCG_ROT(o)) | (PCG_XSH(o) << ((32 - PCG_ROT(o)) & 31)))
uint32_t pcg_op_call_0_contract(struct pcg *this)
__CPROVER_requires(__CPROVER_is_fresh(this, sizeof(*this)))
__CPROVER_assigns(this->state_)
__CPROVER_ensures(this->state_ == __CPROVER_old(this->state_) * PCG_MULT + this->inc_)
__CPROVER_ensures(__CPROVER_return_value == PCG_OUT(__CPROVER_old(this->state_)));

void pcg_seed_contract(struct pcg *this, unsigned long seed, unsigned long seq)
__CPROVER_requires(__CPROVER_is_fresh(this, sizeof(*this)))
__CPROVER_assigns(this->state_, this->inc_)
__CPROVER_ensures(this->inc_ == ((seq << 1) | 1))
__CPROVER_ensures(this->state_ == (this->inc_ + seed) * PCG_MULT + this->inc_);

void pcg_ctor_contract(struct pcg *this, unsigned long seed, unsigned long seq)
__CPROVER_requires(__CPROVER_is_fresh(this, sizeof(*this)))
__CPROVER_assigns(this->state_, this->inc_)
__CPROVER_ensures(this->inc_ == ((seq << 1) | 1))
__CPROVER_ensures(this->state_ == (this->inc_ + seed) * PCG_MULT + this->inc_);

/* bounded draw: the result is inside [0, bound); the increment is untouched. Termination of the
 * rejection loop is probabilistic and NOT claimed (no decreases clause). */
uint32_t pcg_op_call_1_contract(struct pcg *this, unsigned int bound)
__CPROVER_requires(__CPROVER_is_fresh(this, sizeof(*this)) && bound > 0)
__CPROVER_assigns(this->state_)
__CPROVER_ensures(__CPROVER_return_value < bound);

#if 0   /* woven into the lowered code by frg2c */
//@ loop pcg_op_call_1#0
__CPROVER_assigns(this->state_)
__CPROVER_loop_invariant(1)
//@ end
#endif

