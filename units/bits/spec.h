/* Ghost state and specification macros visible to the woven loop contracts (included before the lowered code). */
#ifndef FRGV_BITS_SPEC_H
#define FRGV_BITS_SPEC_H
size_t frgv_g;      /* ghost index: "for all k" is proved as "for the arbitrary k = frgv_g" */
#define MT_N 624
#define MT_INIT(prev, i) ((uint32_t)(1812433253U * ((prev) ^ ((prev) >> 30)) + (uint32_t)(i)))
#endif
