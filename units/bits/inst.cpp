// Instantiation TU: bitset, array, PRNGs, sort (C18).
#include <frg/bitset.hpp>
#include <frg/array.hpp>
#include <frg/random.hpp>
#include <frg/algorithm.hpp>
namespace frgv {
#define BS(N) using A_bs##N = frg::bitset<N>;
BS(1) BS(7) BS(63) BS(64) BS(65) BS(127) BS(128) BS(129) BS(200)
using A_arr3 = frg::array<int, 3>;
using A_arr1 = frg::array<int, 1>;
using A_mt = frg::mt19937;
using A_pcg = frg::pcg_basic32;
struct vcomp {
	bool operator() (const int &a, const int &b);    // stub: member of a small family of strict weak orders
};
using A_arr2 = frg::array<int, 2>;
using A_arr6 = frg::array<int, 6>;
A_arr6 frgv_concat(const A_arr2 &a, const A_arr3 &b, const A_arr1 &c) {
	return frg::array_concat<int>(a, b, c);
}
void frgv_force(int *b, int *e, vcomp c, A_arr3 &x, A_arr1 &y) {
	frg::insertion_sort(b, e, c);
	(void)(x == x);
	swap(x, x);
	(void)(y == y);
	swap(y, y);
}
}
#define IBS(N) template class frg::bitset<N>; \
	template frg::bitset<N> frg::operator&(const frg::bitset<N> &, const frg::bitset<N> &) noexcept; \
	template frg::bitset<N> frg::operator|(const frg::bitset<N> &, const frg::bitset<N> &); \
	template frg::bitset<N> frg::operator^(const frg::bitset<N> &, const frg::bitset<N> &);
IBS(1) IBS(7) IBS(63) IBS(64) IBS(65) IBS(127) IBS(128) IBS(129) IBS(200)
template struct frg::array<int, 3>;
template struct frg::array<int, 1>;
