/* Harnesses for C18. Each contract harness only sets up ghost state and calls the enforced function:
 * the precondition (is_fresh objects, representation invariant, ghost copies) comes from the contract. */
unsigned frgv_assert_hook_hits;
#define FRGV_CANARY() __CPROVER_assert(0, "canary: end of harness reachable")
size_t nondet_size_t(void);

#define GHOSTS(T) do { struct T __o, __r; frgv_old_##T = __o; frgv_rhs_##T = __r; frgv_g = nondet_size_t(); } while(0)

#define BS_HARNESS(N, W, T) \
void h_##T##_op_shl_assign(void) { GHOSTS(T); struct T *t; unsigned long pos; T##_op_shl_assign(t, pos); FRGV_CANARY(); } \
void h_##T##_op_shr_assign(void) { GHOSTS(T); struct T *t; unsigned long pos; T##_op_shr_assign(t, pos); FRGV_CANARY(); } \
void h_##T##_set_1(void) { GHOSTS(T); struct T *t; unsigned long pos; _Bool v = nondet_size_t() & 1; T##_set_1(t, pos, v); FRGV_CANARY(); } \
void h_##T##_reset_1(void) { GHOSTS(T); struct T *t; unsigned long pos; T##_reset_1(t, pos); FRGV_CANARY(); } \
void h_##T##_flip_1(void) { GHOSTS(T); struct T *t; unsigned long pos; T##_flip_1(t, pos); FRGV_CANARY(); } \
void h_##T##_set_0(void) { GHOSTS(T); struct T *t; T##_set_0(t); FRGV_CANARY(); } \
void h_##T##_reset_0(void) { GHOSTS(T); struct T *t; T##_reset_0(t); FRGV_CANARY(); } \
void h_##T##_flip_0(void) { GHOSTS(T); struct T *t; T##_flip_0(t); FRGV_CANARY(); } \
void h_##T##_op_and_assign(void) { GHOSTS(T); struct T *t, *r; T##_op_and_assign(t, r); FRGV_CANARY(); } \
void h_##T##_op_or_assign(void) { GHOSTS(T); struct T *t, *r; T##_op_or_assign(t, r); FRGV_CANARY(); } \
void h_##T##_op_xor_assign(void) { GHOSTS(T); struct T *t, *r; T##_op_xor_assign(t, r); FRGV_CANARY(); } \
void h_##T##_test(void) { GHOSTS(T); struct T *t; unsigned long pos; T##_test(t, pos); FRGV_CANARY(); } \
void h_##T##_op_index_0(void) { GHOSTS(T); struct T *t; unsigned long pos; T##_op_index_0(t, pos); FRGV_CANARY(); } \
void h_##T##_count(void) { GHOSTS(T); struct T *t; T##_count(t); FRGV_CANARY(); } \
void h_##T##_size(void) { GHOSTS(T); struct T *t; T##_size(t); FRGV_CANARY(); } \
void h_##T##_any(void) { GHOSTS(T); struct T *t; T##_any(t); FRGV_CANARY(); } \
void h_##T##_none(void) { GHOSTS(T); struct T *t; T##_none(t); FRGV_CANARY(); } \
void h_##T##_all(void) { GHOSTS(T); struct T *t; T##_all(t); FRGV_CANARY(); } \
void h_##T##_op_eq(void) { GHOSTS(T); struct T *t, *r; T##_op_eq(t, r); FRGV_CANARY(); } \
void h_##T##_ctor_default(void) { GHOSTS(T); struct T *t; T##_ctor_default(t); FRGV_CANARY(); } \
void h_##T##_ctor(void) { GHOSTS(T); struct T *t; unsigned long long v; T##_ctor(t, v); FRGV_CANARY(); } \
void h_##T##_reference_assign(void) { GHOSTS(T); struct T##_reference *r; _Bool x = nondet_size_t() & 1; T##_reference_assign(r, x); FRGV_CANARY(); } \
void h_##T##_reference_conv_bool(void) { GHOSTS(T); struct T##_reference *r; T##_reference_conv_bool(r); FRGV_CANARY(); } \
void h_##T##_reference_op_compl(void) { GHOSTS(T); struct T##_reference *r; T##_reference_op_compl(r); FRGV_CANARY(); } \
void h_##T##_reference_flip(void) { GHOSTS(T); struct T##_reference *r; T##_reference_flip(r); FRGV_CANARY(); } \
/* value-returning compositions and the proxy protocol, checked end to end (no contract indirection) */ \
void h_##T##_values(void) { \
	struct T b, c; size_t pos = nondet_size_t(), g = nondet_size_t(); \
	__CPROVER_assume(REP_OK(&b, N) && REP_OK(&c, N) && g < (N)); \
	struct T r = T##_op_shl(&b, pos); \
	__CPROVER_assert(TB(&r, g) == (pos <= g ? TB(&b, g - (pos <= g ? pos : 0)) : 0) && REP_OK(&r, N), "operator<< bitwise"); \
	r = T##_op_shr(&b, pos); \
	__CPROVER_assert(TB(&r, g) == ((pos < (N) && g + pos < (N)) ? TB(&b, (pos < (N) && g + pos < (N)) ? g + pos : 0) : 0) && REP_OK(&r, N), "operator>> bitwise"); \
	r = T##_op_compl(&b); \
	__CPROVER_assert(TB(&r, g) == !TB(&b, g) && REP_OK(&r, N), "operator~ bitwise"); \
	r = frg_op_and__##N(&b, &c); \
	__CPROVER_assert(TB(&r, g) == (TB(&b, g) & TB(&c, g)) && REP_OK(&r, N), "operator& bitwise"); \
	r = frg_op_or__##N(&b, &c); \
	__CPROVER_assert(TB(&r, g) == (TB(&b, g) | TB(&c, g)) && REP_OK(&r, N), "operator| bitwise"); \
	r = frg_op_xor__##N(&b, &c); \
	__CPROVER_assert(TB(&r, g) == (TB(&b, g) ^ TB(&c, g)) && REP_OK(&r, N), "operator^ bitwise"); \
	FRGV_CANARY(); } \
void h_##T##_refproto(void) { \
	struct T b, o; size_t i = nondet_size_t(), j = nondet_size_t(), g = nondet_size_t(); \
	__CPROVER_assume(REP_OK(&b, N) && i < (N) && j < (N) && g < (N)); o = b; \
	struct T##_reference ri = T##_op_index_1(&b, i); \
	struct T##_reference rj = T##_op_index_1(&b, j); \
	__CPROVER_assert(ri.s == &b && ri.index == i, "operator[] yields a proxy for (this, pos)"); \
	T##_reference_assign_copy(&ri, &rj);      /* b[i] = b[j] */ \
	__CPROVER_assert(TB(&b, g) == (g == i ? TB(&o, j) : TB(&o, g)) && REP_OK(&b, N), "ref = ref copies the referenced bit"); \
	FRGV_CANARY(); }

BS_HARNESS(1, 1, bs1)
BS_HARNESS(7, 1, bs7)
BS_HARNESS(63, 1, bs63)
BS_HARNESS(64, 1, bs64)
BS_HARNESS(65, 2, bs65)
BS_HARNESS(127, 2, bs127)
BS_HARNESS(128, 2, bs128)
BS_HARNESS(129, 3, bs129)
BS_HARNESS(200, 4, bs200)

/* ---- array */
#define ARR_H(T, fn) void h_##T##_##fn(void) { struct T *a; T##_##fn(a); FRGV_CANARY(); }
#define ARR_HP(T, fn) void h_##T##_##fn(void) { struct T *a; unsigned long p; T##_##fn(a, p); FRGV_CANARY(); }
#define ARR_HARNESS(T, N) \
ARR_H(T, front_0) ARR_H(T, front_1) ARR_H(T, back_0) ARR_H(T, back_1) ARR_HP(T, op_index_0) ARR_HP(T, op_index_1) \
ARR_H(T, begin_0) ARR_H(T, begin_1) ARR_H(T, cbegin) ARR_H(T, data_0) ARR_H(T, data_1) ARR_H(T, end_0) ARR_H(T, end_1) \
ARR_H(T, cend) ARR_H(T, size) ARR_H(T, max_size) ARR_H(T, empty) \
void h_##T##_eq_swap(void) { \
	struct T a, b, a0, b0; size_t g = nondet_size_t(); __CPROVER_assume(g < (N)); a0 = a; b0 = b; \
	_Bool eq = T##_op_eq(&a, &b); _Bool all = 1; \
	for (size_t i = 0; i < (N); i++) all = all && a._stor[i] == b._stor[i]; \
	__CPROVER_assert(eq == all, "array == is element-wise equality"); \
	frg_array_int_##N##__swap(&a, &b); \
	__CPROVER_assert(a._stor[g] == b0._stor[g] && b._stor[g] == a0._stor[g], "swap exchanges every element"); \
	FRGV_CANARY(); }
ARR_HARNESS(arr3, 3)
ARR_HARNESS(arr1, 1)

/* ---- PRNGs */
void h_pcg_next(void) { struct pcg *p; pcg_op_call_0(p); FRGV_CANARY(); }
void h_pcg_seed(void) { struct pcg *p; unsigned long a, b; pcg_seed(p, a, b); FRGV_CANARY(); }
void h_pcg_ctor(void) { struct pcg *p; unsigned long a, b; pcg_ctor(p, a, b); FRGV_CANARY(); }
void h_pcg_bounded(void) { struct pcg *p; unsigned int b; pcg_op_call_1(p, b); FRGV_CANARY(); }
/* mt19937: bounded stand-in. The published reference outputs (Matsumoto & Nishimura, also std::mt19937):
 * seed 5489 -> 3499211612, 581869302, 3890346734 ; seed 1 -> 1791095845, 4282876139, 3093770124 */
void h_mt_ref(void)
{
	struct mt m;
	mt_ctor_default(&m);
	__CPROVER_assert(mt_op_call(&m) == 3499211612U, "mt19937() #1 for the default seed");
	__CPROVER_assert(mt_op_call(&m) == 581869302U, "mt19937() #2 for the default seed");
	__CPROVER_assert(mt_op_call(&m) == 3890346734U, "mt19937() #3 for the default seed");
	mt_seed(&m, 1);
	__CPROVER_assert(mt_op_call(&m) == 1791095845U, "mt19937() #1 for seed 1");
	__CPROVER_assert(mt_op_call(&m) == 4282876139U, "mt19937() #2 for seed 1");
	__CPROVER_assert(mt_op_call(&m) == 3093770124U, "mt19937() #3 for seed 1");
	FRGV_CANARY();
}

/* mt19937 against the recurrence of the paper, for EVERY state (class P: the loops run exactly 624 times, fully unrolled, state symbolic).
 * Spec (Matsumoto & Nishimura 1998, in-place form): for k = 0..623: y = (x[k] & 0x80000000) | (x[(k+1) mod 624] & 0x7fffffff);
 * x[k] = x[(k+397) mod 624] ^ (y >> 1) ^ (y odd ? 0x9908b0df : 0); output = tempering of x[ctr]. */
#ifndef MT_J
#define MT_J 623
#endif
static unsigned mt_temper(unsigned y) { y ^= y >> 11; y ^= (y << 7) & 0x9d2c5680U; y ^= (y << 15) & 0xefc60000U; y ^= y >> 18; return y; }
void h_mt_twist(void)
{
	struct mt m; unsigned spec[624];
	for (int i = 0; i < 624; i++) { m._st[i] = (unsigned)nondet_size_t(); spec[i] = m._st[i]; }
	m._ctr = 624;                                     /* state exhausted: the next call regenerates all 624 words */
	for (int k = 0; k < 624; k++) {
		unsigned y = (spec[k] & 0x80000000U) | (spec[(k + 1) % 624] & 0x7fffffffU);
		spec[k] = spec[(k + 397) % 624] ^ (y >> 1) ^ ((y & 1) ? 0x9908b0dfU : 0);
	}
	unsigned r = mt_op_call(&m);
	const int j = MT_J;              /* one obligation per word index (a symbolic index into 624 symbolic words is beyond the solver) */
	__CPROVER_assert(m._st[j] == spec[j], "mt19937: word j of the regenerated state follows the recurrence, for an arbitrary state");
	__CPROVER_assert(r == mt_temper(spec[0]) && m._ctr == 1, "mt19937: the output is the tempered first word");
	unsigned r2 = mt_op_call(&m);
	__CPROVER_assert(r2 == mt_temper(spec[1]) && m._ctr == 2 && m._st[j] == spec[j], "mt19937: the following call tempers the next word and leaves the state alone");
	FRGV_CANARY();
}
void h_mt_seed(void)
{
	struct mt m; unsigned s = (unsigned)nondet_size_t();
	mt_seed(&m, s);
	const int j = MT_J < 1 ? 1 : MT_J;
	__CPROVER_assert(m._st[0] == s && m._st[j] == 1812433253U * (m._st[j - 1] ^ (m._st[j - 1] >> 30)) + (unsigned)j && m._ctr == 624,
	                 "mt19937::seed: x[0] = s, x[j] = 1812433253 * (x[j-1] ^ (x[j-1] >> 30)) + j, state marked exhausted");
	FRGV_CANARY();
}

/* ---- insertion_sort with a comparator drawn from a family of strict weak orders
 * ASSUMED: the comparator is a pure strict weak order: <, >, or < on keys with the low bit masked (ties) */
int frgv_cmp_mode;
_Bool frgv_vcomp_op_call(struct frgv_vcomp *this, int *a, int *b)
{
	if (frgv_cmp_mode == 0) return *a < *b;
	if (frgv_cmp_mode == 1) return *a > *b;
	return (*a & ~1) < (*b & ~1);
}
void frgv_vcomp_ctor_copy_stub(void) { }
#ifndef SORT_MAX
#define SORT_MAX 6
#define SORT_N 3
#define SORT_MODE 0
#endif
void h_sort(void)
{
	int a[SORT_MAX], o[SORT_MAX];
	size_t n = SORT_N; int v;
	frgv_cmp_mode = SORT_MODE;
	for (size_t i = 0; i < SORT_MAX; i++) o[i] = a[i];
	struct frgv_vcomp c;
	frg_insertion_sort__int_P_frgv_vcomp(a, a + n, c);
	/* permutation: every value occurs as often as before */
	size_t c0 = 0, c1 = 0;
	for (size_t i = 0; i < SORT_MAX; i++) { if (i < n && o[i] == v) c0++; if (i < n && a[i] == v) c1++; }
	__CPROVER_assert(c0 == c1, "insertion_sort leaves a permutation of its input");
	for (size_t i = n; i < SORT_MAX; i++) __CPROVER_assert(a[i] == o[i], "insertion_sort writes nothing outside [begin,end)");
	FRGV_CANARY();
	size_t i = nondet_size_t(), j = nondet_size_t();
	__CPROVER_assume(i < j && j < n);
	__CPROVER_assert(!frgv_vcomp_op_call(&c, &a[i], &a[j]), "no earlier element satisfies comp(earlier, later)");
}

/* array_concat: the result is the arguments' elements in order (class P: loop-free after unrolling 3 fixed-size copies; all values symbolic) */
void h_arr_concat(void)
{
	struct arr2 a; struct arr3 b; struct arr1 c;
	for (int i = 0; i < 2; i++) a._stor[i] = (int)nondet_size_t();
	for (int i = 0; i < 3; i++) b._stor[i] = (int)nondet_size_t();
	c._stor[0] = (int)nondet_size_t();
	struct arr6 r = frgv_frgv_concat(&a, &b, &c);
	__CPROVER_assert(r._stor[0] == a._stor[0] && r._stor[1] == a._stor[1] && r._stor[2] == b._stor[0] && r._stor[3] == b._stor[1] && r._stor[4] == b._stor[2] && r._stor[5] == c._stor[0],
	                 "array_concat(a, b, c) is a's elements, then b's, then c's");
	FRGV_CANARY();
}
