BITSETS = [(1, 1), (7, 1), (63, 1), (64, 1), (65, 2), (127, 2), (128, 2), (129, 3), (200, 4)]
BS_FUNCS = ['op_shl_assign', 'op_shr_assign', 'set_1', 'reset_1', 'flip_1', 'set_0', 'reset_0', 'flip_0',
            'op_and_assign', 'op_or_assign', 'op_xor_assign', 'test', 'op_index_0', 'count', 'size', 'any', 'none',
            'all', 'op_eq', 'ctor_default', 'ctor', 'reference_assign', 'reference_conv_bool',
            'reference_op_compl', 'reference_flip']

UNIT = dict(
    name='bits',
    pre_includes=['spec.h'],
    loop_contracts_required=['pcg_op_call_1'],
    roots=['rec:bs*', 'rec:arr*', 'rec:mt', 'rec:pcg', 'fn:frgv::frgv_force', 'fn:frgv::frgv_concat', 'fn:frg::operator*', 'fn:frg::insertion_sort',
           'fn:frg::array<*>::swap'],
    assumptions=['bitset<N> is verified for N in {1,7,63,64,65,127,128,129,200} (class Pc), not for all N in one proof',
                 'set/reset/flip/test/operator[] are specified for pos < N (frigg has no out_of_range exception)'],
)

def obligations(tier):
    obs = []
    for n, w in BITSETS:
        t = 'bs%d' % n
        for fn in BS_FUNCS:
            obs.append(dict(id='%s.%s' % (t, fn), entry='h_%s_%s' % (t, fn),
                            enforce=['%s_%s/%s_%s_contract' % (t, fn, t, fn)],
                            cls='Pc', serves=['C18'], unwind=w + 3, unwind_is_property=True,
                            bound='N=%d: loops over %d words fully unrolled (complete)' % (n, w),
                            expect_kinds=['postcondition'], timeout=300,
                            function='%s_%s' % (t, fn)))
        for h in ('values', 'refproto'):
            obs.append(dict(id='%s.%s' % (t, h), entry='h_%s_%s' % (t, h), cls='Pc', serves=['C18'], unwind=w + 3,
                            unwind_is_property=True, timeout=300, function='%s_op_shl' % t,
                            bound='N=%d: loops over %d words fully unrolled (complete)' % (n, w)))
    for t, n in (('arr3', 3), ('arr1', 1)):
        for fn in ['front_0', 'front_1', 'back_0', 'back_1', 'op_index_0', 'op_index_1', 'begin_0', 'begin_1', 'cbegin',
                   'data_0', 'data_1', 'end_0', 'end_1', 'cend', 'size', 'max_size', 'empty']:
            obs.append(dict(id='%s.%s' % (t, fn), entry='h_%s_%s' % (t, fn), enforce=['%s_%s/%s_%s_contract' % (t, fn, t, fn)],
                            cls='P', serves=['C18'], expect_kinds=['postcondition'], function='%s_%s' % (t, fn)))
        obs.append(dict(id='%s.eq_swap' % t, entry='h_%s_eq_swap' % t, cls='P', serves=['C18'], unwind=n + 2,
                        function='%s_op_eq' % t))
    for fn, hn in (('pcg_op_call_0', 'h_pcg_next'), ('pcg_seed', 'h_pcg_seed'), ('pcg_ctor', 'h_pcg_ctor')):
        obs.append(dict(id='pcg.%s' % fn, entry=hn, enforce=['%s/%s_contract' % (fn, fn)], cls='P', serves=['C18'],
                        expect_kinds=['postcondition'], function=fn, flags=['--z3'], backend='z3 4.8.12 (bit-vector multiplication as a theory term)'))
    obs.append(dict(id='pcg.bounded', entry='h_pcg_bounded', enforce=['pcg_op_call_1/pcg_op_call_1_contract'], loops=True,
                    cls='P', serves=['C18'], expect_kinds=['postcondition', 'loop invariant'], function='pcg_op_call_1',
                    timeout=300))
    obs.append(dict(id='mt.reference_vector', entry='h_mt_ref', cls='B', serves=['C18'], unwind=626,
                    bound='seeds 5489 (default constructor) and 1: the first three outputs equal the published MT19937 values; loops unwound 626',
                    function='mt_op_call', timeout=300))
    # word indices at the ends of the three segments of the regeneration loop (0..226, 227..622, 623) and inside them
    for j in ((0, 226, 227, 622, 623) if tier == 'quick' else (0, 1, 100, 226, 227, 228, 396, 397, 500, 621, 622, 623)):
        obs.append(dict(id='mt.twist.word%d' % j, entry='h_mt_twist', cls='P', serves=['C18'], unwind=626, function='mt_op_call', timeout=900, cost=30, defines=['MT_J=%d' % j], flags=['--max-field-sensitivity-array-size', '1024'],
                        bound='word %d of the state; the state itself is arbitrary' % j))
    for j in ((1, 623) if tier == 'quick' else (1, 2, 300, 623)):
        obs.append(dict(id='mt.seed.word%d' % j, entry='h_mt_seed', cls='P', serves=['C18'], unwind=626, function='mt_seed', timeout=900, cost=30, defines=['MT_J=%d' % j], flags=['--max-field-sensitivity-array-size', '1024'],
                        bound='word %d of the seeded state; the seed is arbitrary' % j))
    obs.append(dict(id='arr.concat', entry='h_arr_concat', cls='P', serves=['C18'], unwind=8, function='frg_array_concat__int_frg_array_int_2__frg_array_int_3__frg_array_int_1', timeout=300))
    nmax = 6 if tier == 'thorough' else 5
    for n in range(0, nmax + 1):
        for mode in range(3):
            obs.append(dict(id='sort.n%d.cmp%d' % (n, mode), entry='h_sort', cls='B', serves=['C18'], unwind=nmax + 3,
                            defines=['SORT_N=%d' % n, 'SORT_MODE=%d' % mode, 'SORT_MAX=%d' % (nmax + 1)],
                            bound='all int arrays of length %d (fully symbolic), comparator #%d' % (n, mode),
                            function='frg_insertion_sort__int_P_frgv_vcomp', timeout=900))
    return obs
