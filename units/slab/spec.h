#ifndef FRGV_SLAB_SPEC_H
#define FRGV_SLAB_SPEC_H
#define memcpy(d, s, n) frgv_memcpy((d), (s), (n))     /* the pool's copy in realloc goes through the poison check */
#endif
