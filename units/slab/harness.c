/* slab_pool (C01..C05): per-function proofs on symbolic well-formed states.
 *
 * Environment = contracts with bodies (stubs below):
 *   Policy::map      returns 0 (nondeterministically, at every call: C04) or the integer address of a fresh object of
 *                    exactly the requested length (CBMC places object bases on 2^k boundaries, so an aligned map needs no
 *                    extra modelling; the unaligned policy returns an arbitrary interior start);
 *                    obligation: no pool lock is held (C05).
 *   Policy::unmap    obligation: no pool lock held; (base, length) is exactly a live mapping (C03).
 *   poison hooks     drive a small ghost poison state: one tracked block (unpoisoned prefix of frgv_blk) and one tracked
 *                    header object; the access hook FRGV_ACC / the memcpy hook assert that the pool does not touch
 *                    poisoned bytes of either.
 *   Mutex            records ownership: lock balance, self-deadlock, two-locks-at-once and guarded-by obligations (C05).
 */
unsigned frgv_assert_hook_hits;
#define FRGV_CANARY() __CPROVER_assert(0, "canary: end of harness reachable")
size_t nondet_size_t(void);
_Bool nondet_bool(void);

/* ---------------------------------------------------------------- policy memory = fresh objects */
static size_t frgv_brk;
static uintptr_t frgv_p2i(const void *p) { return (uintptr_t)p; }
static char *arena_alloc(size_t n)
{
	__CPROVER_assume(n <= 0x100000);
	char *p = malloc(n);
	__CPROVER_assume(p != 0);
	return p;
}

/* ---------------------------------------------------------------- ghost state */
unsigned frgv_held_locks, frgv_map_calls, frgv_unmap_calls, frgv_map_failed;
uintptr_t frgv_last_map_ret; size_t frgv_last_map_len;
uintptr_t frgv_unmap_base; size_t frgv_unmap_len;             /* arguments of the last unmap */
/* live mapping the function under proof may unmap (set by the harness) */
size_t frgv_region_len; uintptr_t frgv_region_ret; _Bool frgv_region_live;
/* tracked block: [frgv_blk, frgv_blk + frgv_blk_cap) with the first frgv_blk_unp bytes unpoisoned */
char *frgv_blk; size_t frgv_blk_cap, frgv_blk_unp;
/* tracked header object and whether it is currently poisoned */
char *frgv_hdr; size_t frgv_hdr_len; _Bool frgv_hdr_poisoned; size_t frgv_hdr_unp; size_t frgv_track_new_hdr;
/* guarded-by: object whose fields may only be touched while frgv_guard is held (0 = no such object) */
void *frgv_guarded; size_t frgv_guarded_lo, frgv_guarded_hi; struct frgv_vmutex *frgv_guard;

/* ASSUMED: correct mutex; the stub records ownership */
void frgv_vmutex_lock(struct frgv_vmutex *this)
{
	__CPROVER_assert(!this->held, "C05: lock() on a mutex this thread already holds (self-deadlock)");
	__CPROVER_assert(frgv_held_locks == 0, "C05: a second pool lock is acquired while one is held (lock-order cycle possible)");
	this->held = 1; frgv_held_locks++;
}
void frgv_vmutex_unlock(struct frgv_vmutex *this)
{
	__CPROVER_assert(this->held, "C05: unlock() of a mutex that is not held");
	this->held = 0; frgv_held_locks--;
}

static void poison_range(void *p, size_t n, int how)      /* how: 0 unpoison, 1 poison, 2 unpoison_expand */
{
	if (frgv_blk && (char *)p == frgv_blk) {
		__CPROVER_assert(n <= frgv_blk_cap, "C03: poison/unpoison range exceeds the block");
		if (how == 1) { if (n >= frgv_blk_unp) frgv_blk_unp = 0; }
		else if (how == 0) frgv_blk_unp = n;
		else if (n > frgv_blk_unp) frgv_blk_unp = n;
	} else if (frgv_hdr && (char *)p == frgv_hdr) {
		if (how == 1) { __CPROVER_assert(n <= frgv_hdr_len, "C03: poison range exceeds the header"); frgv_hdr_poisoned = 1; frgv_hdr_unp = 0; }
		else { frgv_hdr_poisoned = 0; frgv_hdr_unp = n; }          /* the first n bytes of the header are accessible */
	}
}
void frgv_access(void *a, size_t n)
{
#define OFF(p) ((size_t)__CPROVER_POINTER_OFFSET(p))
	if (frgv_hdr && __CPROVER_same_object(a, frgv_hdr) && OFF(a) >= OFF(frgv_hdr) && OFF(a) < OFF(frgv_hdr) + frgv_hdr_len)
		__CPROVER_assert(!frgv_hdr_poisoned && OFF(a) - OFF(frgv_hdr) + n <= frgv_hdr_unp, "C03: the pool reads or writes a poisoned frame header");
	if (frgv_blk && __CPROVER_same_object(a, frgv_blk) && OFF(a) >= OFF(frgv_blk) && OFF(a) < OFF(frgv_blk) + frgv_blk_cap)
		__CPROVER_assert(OFF(a) - OFF(frgv_blk) + n <= frgv_blk_unp, "C03: the pool reads or writes a poisoned byte of a block");
	/* the bucket's own fields (head slab, partial tree) next to the tracked bucket mutex, which is the first member of the bucket */
	if (frgv_guard && __CPROVER_same_object(a, frgv_guard) && OFF(a) >= OFF(frgv_guard) + sizeof(struct frgv_vmutex) && OFF(a) < OFF(frgv_guard) + sizeof(struct pa_bucket))
		__CPROVER_assert(frgv_guard->held, "C05: head slab / partial tree of a bucket accessed without its bucket mutex");
	if (frgv_guarded && __CPROVER_same_object(a, frgv_guarded)) {
		size_t off = OFF(a) - OFF(frgv_guarded);
		if (off >= frgv_guarded_lo && off < frgv_guarded_hi)
			__CPROVER_assert(frgv_guard->held, "C05: free-list / reservation state of a published slab accessed without its bucket mutex");
	}
}
void *frgv_memcpy(void *d, void *s, size_t n)
{
	if (frgv_blk && (char *)s == frgv_blk) __CPROVER_assert(n <= frgv_blk_unp, "C03: the pool copies poisoned bytes of the old block");
	return (memcpy)(d, s, n);
}

static uintptr_t policy_map(size_t length, _Bool unaligned, size_t sb)
{
	__CPROVER_assert(frgv_held_locks == 0, "C05: Policy::map called while a pool lock is held");
	frgv_map_calls++;
#if defined(MAP_FAILS)        /* MAP_FAILS: the failure path only */
	frgv_map_failed++; return 0;
#elif !defined(MAP_SUCCEEDS)  /* MAP_SUCCEEDS: the success path only (keeps every address concrete) */
	if (nondet_bool()) { frgv_map_failed++; return 0; }
#endif
	size_t off = 0;
	if (unaligned) { off = nondet_size_t(); __CPROVER_assume(off < sb && (off & 7) == 0); }     /* unaligned policy: arbitrary 8-aligned start */
	char *p = arena_alloc(length + off);
	frgv_last_map_ret = frgv_p2i(p + off); frgv_last_map_len = length;
	if (frgv_track_new_hdr && !unaligned) { frgv_hdr = p; frgv_hdr_len = frgv_track_new_hdr; frgv_hdr_poisoned = 1; frgv_hdr_unp = 0; }   /* a fresh mapping is poisoned */
	return frgv_last_map_ret;
}
static void policy_unmap(uintptr_t base, size_t length)
{
	__CPROVER_assert(frgv_held_locks == 0, "C05: Policy::unmap called while a pool lock is held");
	frgv_unmap_calls++; frgv_unmap_base = base; frgv_unmap_len = length;
	__CPROVER_assert(frgv_region_live && base == frgv_region_ret && length == frgv_region_len,
	                 "C03: unmap only of a region the pool mapped, once, with the base and length map was asked for");
	frgv_region_live = 0;
}
uintptr_t frgv_pol_ap_map(struct frgv_pol_ap *this, unsigned long length, unsigned long align) { return policy_map(length, 0, align); }
void frgv_pol_ap_unmap(struct frgv_pol_ap *this, unsigned long base, unsigned long length) { policy_unmap(base, length); }
void frgv_pol_ap_poison(struct frgv_pol_ap *this, void *p, unsigned long n) { poison_range(p, n, 1); }
void frgv_pol_ap_unpoison(struct frgv_pol_ap *this, void *p, unsigned long n) { poison_range(p, n, 0); }
void frgv_pol_ap_unpoison_expand(struct frgv_pol_ap *this, void *p, unsigned long n) { poison_range(p, n, 2); }
uintptr_t frgv_pol_e_map(struct frgv_pol_e *this, unsigned long length, unsigned long align) { return policy_map(length, 0, align); }
void frgv_pol_e_unmap(struct frgv_pol_e *this, unsigned long base, unsigned long length) { policy_unmap(base, length); }
uintptr_t frgv_pol_u_map(struct frgv_pol_u *this, unsigned long length) { return policy_map(length, 1, 0x400); }
void frgv_pol_u_unmap(struct frgv_pol_u *this, unsigned long base, unsigned long length) { policy_unmap(base, length); }
uintptr_t frgv_pol_d_map(struct frgv_pol_d *this, unsigned long length, unsigned long align) { return policy_map(length, 0, align); }
void frgv_pol_d_unmap(struct frgv_pol_d *this, unsigned long base, unsigned long length) { policy_unmap(base, length); }

/* ---------------------------------------------------------------- partial tree = abstract sorted set
 * ASSUMED (rbtree contract, checked on its own in C06): the per-bucket tree of partial slabs behaves as a set ordered by
 * frame address: insert adds an absent element, remove deletes a present one, first() is the lowest address.
 * The model holds at most two elements of ONE tree (frgv_set_tree); obligations: the pool only inserts absent and only
 * removes present slabs, and only under the bucket mutex (frgv_guard). */
void *frgv_set_tree; void *frgv_set_e[2]; size_t frgv_set_n; unsigned frgv_set_inserts, frgv_set_removes;
static uintptr_t frame_address(void *slb) { return ((struct pa_frame *)slb)->address; }   /* pa/pu frames share the layout */
static void set_insert(void *tree, void *slb)
{
	__CPROVER_assert(tree == frgv_set_tree, "the slab is linked into its own bucket's partial tree");
	__CPROVER_assert(frgv_guard == 0 || frgv_guard->held, "C05: partial tree updated without the bucket mutex");
	__CPROVER_assert(frgv_set_n < 2 && (frgv_set_n == 0 || frgv_set_e[0] != slb), "a slab is inserted into the partial tree only when it is not in it");
	frgv_set_e[frgv_set_n++] = slb; frgv_set_inserts++;
}
static void set_remove(void *tree, void *slb)
{
	__CPROVER_assert(tree == frgv_set_tree, "the slab is unlinked from its own bucket's partial tree");
	__CPROVER_assert(frgv_guard == 0 || frgv_guard->held, "C05: partial tree updated without the bucket mutex");
	__CPROVER_assert((frgv_set_n >= 1 && frgv_set_e[0] == slb) || (frgv_set_n == 2 && frgv_set_e[1] == slb), "only a slab that is in the partial tree is removed from it");
	if (frgv_set_n == 2 && frgv_set_e[0] == slb) frgv_set_e[0] = frgv_set_e[1];
	frgv_set_n--; frgv_set_removes++;
}
static void *set_first(void *tree)
{
	__CPROVER_assert(tree == frgv_set_tree, "first() on the bucket's own partial tree");
	if (frgv_set_n == 0) return 0;
	if (frgv_set_n == 1) return frgv_set_e[0];
	return frame_address(frgv_set_e[0]) < frame_address(frgv_set_e[1]) ? frgv_set_e[0] : frgv_set_e[1];
}
void pa_tree_insert(struct pa_tree *this, struct pa_slab_frame *node) { set_insert(this, node); }
void pa_treeb_remove(struct pa_treeb *this, struct pa_slab_frame *node) { set_remove(this, node); }
struct pa_slab_frame *pa_treeb_first(struct pa_treeb *this) { return set_first(this); }
void pe_tree_insert(struct pe_tree *this, struct pe_slab_frame *node) { set_insert(this, node); }
void pe_treeb_remove(struct pe_treeb *this, struct pe_slab_frame *node) { set_remove(this, node); }
struct pe_slab_frame *pe_treeb_first(struct pe_treeb *this) { return set_first(this); }
void pu_tree_insert(struct pu_tree *this, struct pu_slab_frame *node) { set_insert(this, node); }
void pu_treeb_remove(struct pu_treeb *this, struct pu_slab_frame *node) { set_remove(this, node); }
struct pu_slab_frame *pu_treeb_first(struct pu_treeb *this) { return set_first(this); }

/* ================================================================================================
 * C01 mechanism 1: size-class arithmetic, for every request size (loop-free: the tiny-size loop has 3 iterations)
 */
#define SIZECLASS_HARNESS(P, NB) \
void h_##P##_sizeclass(void) \
{ \
	size_t len = nondet_size_t(); \
	size_t maxb = P##_bucket_to_size(NB - 1); \
	__CPROVER_assume(len >= 1 && len <= maxb); \
	size_t i = P##_size_to_bucket(len); \
	__CPROVER_assert(i < NB, "size_to_bucket stays below num_buckets for every small request"); \
	size_t sz = P##_bucket_to_size((unsigned)i); \
	__CPROVER_assert(sz >= len && sz >= 8 && (sz & (sz - 1)) == 0, "class size is a power of two >= max(8, request)"); \
	__CPROVER_assert(i == 0 || P##_bucket_to_size((unsigned)i - 1) < len, "the class is the smallest that fits"); \
	unsigned j = (unsigned)(nondet_size_t() % NB); \
	__CPROVER_assert(P##_size_to_bucket(P##_bucket_to_size(j)) == j && (j + 1 >= NB || P##_size_to_bucket(P##_bucket_to_size(j) + 1) == j + 1), "bucket_to_size / size_to_bucket are inverse at class boundaries"); \
	FRGV_CANARY(); \
}
SIZECLASS_HARNESS(pa, 6)
SIZECLASS_HARNESS(pu, 6)
SIZECLASS_HARNESS(pd, 13)

/* large requests: page rounding */
void h_pa_pageround(void)
{
	size_t len = nondet_size_t(); __CPROVER_assume(len > 256 && len < (size_t)-1 - 0x100);
	size_t area = (len + 0x100 - 1) & ~(size_t)(0x100 - 1);
	__CPROVER_assert(area >= len && area - len < 0x100 && (area & 0xff) == 0, "page rounding of a large request: >= request, < one page of slack, page multiple");
	FRGV_CANARY();
}

/* ================================================================================================
 * Per-configuration function proofs. P = pa (aligned map, poisoning) or pu (unaligned map).
 */
#define PAGE 0x100UL
#define SB 0x400UL
#define SLAB 0x400UL
#define NB 6
#define MAXSMALL 256UL

#define POOL_INIT(P, pool, pol) \
	struct P pool; struct frgv_pol_##pol policy_; \
	pool._plcy = &policy_; pool._tree_mutex.held = 0; \
	for (int b_ = 0; b_ < NB; b_++) pool._bkts[b_].bucket_mutex.held = 0; \
	frgv_held_locks = 0; frgv_map_calls = 0; frgv_unmap_calls = 0; frgv_map_failed = 0; frgv_brk = 0; frgv_blk = 0; frgv_hdr = 0; frgv_guarded = 0; frgv_guard = 0; frgv_region_live = 0; frgv_set_tree = 0; frgv_set_n = 0; frgv_set_inserts = 0; frgv_set_removes = 0

#define FT(P, k) frg_slab_pool_frgv_##P##_frgv_vmutex__frame_type_##k

/* ---- _construct_large: header page + page-rounded area inside the reservation (C01 mechanism 4, C03, C04) */
#define CONSTRUCT_LARGE_H(P, pol, POLN, UNALIGNED) \
void h_##P##_construct_large(void) \
{ \
	POOL_INIT(P, pool, pol); \
	size_t area = nondet_size_t(); __CPROVER_assume(area >= PAGE && area <= 0x2000 && (area & (PAGE - 1)) == 0); \
	struct P##_frame *f = P##__construct_large(&pool, area); \
	__CPROVER_assert(frgv_map_calls == 1 && frgv_held_locks == 0, "exactly one map call, no lock held afterwards"); \
	if (!f) { __CPROVER_assert(frgv_map_failed == 1, "C04: null only when Policy::map returned 0"); } \
	else { \
		__CPROVER_assert(frgv_map_failed == 0, "C04: a failed map yields null"); \
		uintptr_t a = frgv_p2i(f); \
		__CPROVER_assert(UNALIGNED ? a == ((frgv_last_map_ret + SB - 1) & ~(SB - 1)) : a == frgv_last_map_ret, "frame header at the superblock boundary of the reservation"); \
		__CPROVER_assert((a & (SB - 1)) == 0, "frame header is superblock-aligned (lookup by rounding works)"); \
		__CPROVER_assert(f->type == FT(POLN, large) && f->address == a + PAGE && f->length == area, "large frame: area one page after the header, page-rounded length"); \
		__CPROVER_assert(f->sb_base == frgv_last_map_ret && f->sb_reservation == frgv_last_map_len, "C03: the header records exactly the base and length map was asked for"); \
		__CPROVER_assert(frgv_last_map_len == area + PAGE + (UNALIGNED ? SB : 0), "reservation = area + header page (+ one superblock when map is unaligned)"); \
		__CPROVER_assert(f->address >= f->sb_base && f->address + f->length <= f->sb_base + f->sb_reservation, "C01: the whole block lies inside the reservation"); \
		__CPROVER_assert((f->address & (PAGE - 1)) == 0, "C01: large blocks are page-aligned"); \
	} \
	FRGV_CANARY(); \
}
CONSTRUCT_LARGE_H(pa, ap, pol_ap, 0)
CONSTRUCT_LARGE_H(pu, u, pol_u, 1)

/* a large frame as _construct_large leaves it: reservation [ret, ret+len) with the header at its first superblock boundary */
#define MK_LARGE(P, POLN, UNALIGNED, region, f, area) \
	size_t area = nondet_size_t(); __CPROVER_assume(area >= PAGE && area <= 0x800 && (area & (PAGE - 1)) == 0); \
	size_t lead_ = 0; if (UNALIGNED) { lead_ = nondet_size_t(); __CPROVER_assume(lead_ < SB && (lead_ & 7) == 0); } \
	size_t rlen_ = area + PAGE + (UNALIGNED ? SB : 0); \
	char *region = arena_alloc(rlen_ + lead_) + lead_;           /* what Policy::map returned */ \
	uintptr_t ra_ = frgv_p2i(region); \
	struct P##_frame *f = (struct P##_frame *)FRGV_I2P((ra_ + SB - 1) & ~(SB - 1)); \
	f->type = FT(POLN, large); f->address = frgv_p2i(f) + PAGE; f->length = area; f->sb_base = ra_; f->sb_reservation = rlen_

/* ---- free_huge_: accounting under the tree mutex, header read before it is poisoned, unmap(sb_base, sb_reservation) */
#define FREE_HUGE_H(P, pol, POLN, UNALIGNED) \
void h_##P##_free_huge(void) \
{ \
	POOL_INIT(P, pool, pol); \
	MK_LARGE(P, POLN, UNALIGNED, region, f, area); \
	size_t before = nondet_size_t(); __CPROVER_assume(before >= (area + PAGE) / PAGE); pool._usedPages = before; \
	frgv_region_live = 1; frgv_region_ret = f->sb_base; frgv_region_len = f->sb_reservation; \
	frgv_hdr = (char *)f; frgv_hdr_len = sizeof(*f); frgv_hdr_poisoned = 0; frgv_hdr_unp = frgv_hdr_len; \
	P##_free_huge_(&pool, f, FRGV_I2P(f->address)); \
	__CPROVER_assert(frgv_unmap_calls == 1 && !frgv_region_live, "C03: freeing a large block returns its whole reservation, exactly once"); \
	__CPROVER_assert(pool._usedPages == before - (area + PAGE) / PAGE, "C03: the used-page counter falls by exactly what was added when the frame was attached"); \
	__CPROVER_assert(frgv_held_locks == 0 && !pool._tree_mutex.held, "C05: no lock is held on return"); \
	FRGV_CANARY(); \
}
FREE_HUGE_H(pa, ap, pol_ap, 0)
FREE_HUGE_H(pu, u, pol_u, 1)

#ifndef MK_SLAB_IDX
#define MK_SLAB_IDX ((int)(nondet_size_t() % NB))
#endif
/* a slab as _construct_slab leaves it (header + carved area), for a symbolic size class; the free list is not built here */
#define MK_SLAB(P, POLN, region, slb, idx, item, overhead) \
	int idx = MK_SLAB_IDX; size_t item = 8UL << idx; \
	size_t overhead = ((sizeof(struct P##_slab_frame) + item - 1) / item) * item; \
	char *region = arena_alloc(SLAB); \
	struct P##_slab_frame *slb = (struct P##_slab_frame *)region; \
	slb->__b0.type = FT(POLN, slab); slb->__b0.address = frgv_p2i(region) + overhead; slb->__b0.length = SLAB - overhead; \
	slb->__b0.sb_base = frgv_p2i(region); slb->__b0.sb_reservation = SLAB; slb->index = idx

/* ---- in-place realloc decisions and their poison sequences (C02, C03) */
void h_pa_reallocate_in_slab(void)
{
	POOL_INIT(pa, pool, ap);
	MK_SLAB(pa, pol_ap, region, slb, idx, item, overhead);
	size_t k = nondet_size_t(); __CPROVER_assume(k < (SLAB - overhead) / item);
	char *p = region + overhead + k * item;
	size_t oldreq = nondet_size_t(), ns = nondet_size_t(); __CPROVER_assume(oldreq <= item);
	frgv_blk = p; frgv_blk_cap = item; frgv_blk_unp = oldreq;
	_Bool r = pa_reallocate_in_slab_(&pool, slb, p, ns);
	__CPROVER_assert(r == (ns <= item), "C02: in-place exactly when the new size fits the current class");
	__CPROVER_assert(!r || frgv_blk_unp == ns, "C03: after an in-place realloc exactly the requested bytes are unpoisoned");
	__CPROVER_assert(r || frgv_blk_unp == oldreq, "a refused in-place realloc changes nothing");
	__CPROVER_assert(frgv_map_calls == 0 && frgv_unmap_calls == 0 && frgv_held_locks == 0, "C02: no mapping activity");
	FRGV_CANARY();
}
void h_pa_reallocate_huge(void)
{
	POOL_INIT(pa, pool, ap);
	MK_LARGE(pa, pol_ap, 0, region, f, area);
	size_t oldreq = nondet_size_t(), ns = nondet_size_t(); __CPROVER_assume(oldreq <= area);
	frgv_blk = (char *)FRGV_I2P(f->address); frgv_blk_cap = area; frgv_blk_unp = oldreq;
	_Bool r = pa_reallocate_huge_(&pool, f, FRGV_I2P(f->address), ns);
	__CPROVER_assert(r == (ns <= area), "C02: in-place exactly when the new size fits the frame");
	__CPROVER_assert(!r || frgv_blk_unp == ns, "C03: after an in-place realloc exactly the requested bytes are unpoisoned");
	__CPROVER_assert(frgv_map_calls == 0 && frgv_unmap_calls == 0 && frgv_held_locks == 0, "C02: no mapping activity");
	FRGV_CANARY();
}

/* ---- frame lookup by rounding (p - 1) down to the superblock size: get_size for every block of a slab / a large frame */
#define GET_SIZE_H(P, pol, POLN, UNALIGNED) \
void h_##P##_get_size_slab(void) \
{ \
	POOL_INIT(P, pool, pol); \
	MK_SLAB(P, POLN, region, slb, idx, item, overhead); \
	size_t k = nondet_size_t(); __CPROVER_assume(k < (SLAB - overhead) / item); \
	char *p = region + overhead + k * item; \
	__CPROVER_assert(P##_get_size(&pool, p) == item, "C01: the size reported for a slab block is its class size"); \
	__CPROVER_assert(P##_frame_contains(&slb->__b0, p) && !P##_frame_contains(&slb->__b0, region + overhead - 1) && !P##_frame_contains(&slb->__b0, region + SLAB), "frame::contains is exactly the carved area"); \
	__CPROVER_assert(P##_get_size(&pool, 0) == 0, "get_size(null) is 0"); \
	FRGV_CANARY(); \
} \
void h_##P##_get_size_large(void) \
{ \
	POOL_INIT(P, pool, pol); \
	MK_LARGE(P, POLN, UNALIGNED, region, f, area); \
	__CPROVER_assert(P##_get_size(&pool, FRGV_I2P(f->address)) == area, "C01: the size reported for a large block is its page-rounded area"); \
	FRGV_CANARY(); \
}
GET_SIZE_H(pa, ap, pol_ap, 0)
GET_SIZE_H(pu, u, pol_u, 1)
/* the configuration with page size == superblock size: the header page of a large frame is a whole superblock, so the user area is
 * superblock-aligned and only (p - 1) rounds to the header */
void h_pe_get_size_large(void)
{
	POOL_INIT(pe, pool, e);
	size_t area = nondet_size_t(); __CPROVER_assume(area >= 0x400 && area <= 0x1000 && (area & 0x3ff) == 0);
	char *region = arena_alloc(area + 0x400);
	struct pe_frame *f = (struct pe_frame *)region;
	f->type = FT(pol_e, large); f->address = frgv_p2i(region) + 0x400; f->length = area; f->sb_base = frgv_p2i(region); f->sb_reservation = area + 0x400;
	size_t k = nondet_size_t(); __CPROVER_assume(k < 8); region[0x400 + k] = (char)nondet_size_t();        /* user data where a header would be misread */
	__CPROVER_assert(pe_get_size(&pool, region + 0x400) == area, "C01: the size reported for a large block is its page-rounded area, also when the user area is superblock-aligned");
	FRGV_CANARY();
}
void h_pe_get_size_slab(void)
{
	POOL_INIT(pe, pool, e);
	MK_SLAB(pe, pol_e, region, slb, idx, item, overhead);
	size_t k = nondet_size_t(); __CPROVER_assume(k < (SLAB - overhead) / item);
	__CPROVER_assert(pe_get_size(&pool, region + overhead + k * item) == item, "C01: the size reported for a slab block is its class size");
	FRGV_CANARY();
}

/* ---- allocate, large path: C01 (size, placement), C03 (accounting), C04 (map failure), C05 (locks) */
#ifndef ALLOC_LEN
#define ALLOC_LEN 300
#endif
#define ALLOC_LARGE_H(P, pol, POLN) \
void h_##P##_allocate_large(void) \
{ \
	POOL_INIT(P, pool, pol); \
	size_t before = nondet_size_t(); __CPROVER_assume(before < 0x100000); pool._usedPages = before; \
	size_t len = ALLOC_LEN; \
	char *p = P##_allocate(&pool, len); \
	size_t area = (len + PAGE - 1) & ~(PAGE - 1); \
	__CPROVER_assert(frgv_held_locks == 0 && !pool._tree_mutex.held, "C04/C05: no lock is held on return (also when map failed)"); \
	if (!p) { __CPROVER_assert(frgv_map_failed == 1 && pool._usedPages == before, "C04: null only when map failed, and then nothing was changed"); } \
	else { \
		struct P##_frame *f = (struct P##_frame *)FRGV_I2P((frgv_p2i(p) - 1) & ~(SB - 1)); \
		__CPROVER_assert(frgv_map_failed == 0 && frgv_map_calls == 1, "one successful map call"); \
		__CPROVER_assert(frgv_p2i(p) == f->address && f->length == area && area >= len, "C01: the block is the frame's area and at least as large as the request"); \
		__CPROVER_assert((frgv_p2i(p) & (PAGE - 1)) == 0, "C01: large blocks are page-aligned"); \
		__CPROVER_assert(pool._usedPages == before + (area + PAGE) / PAGE, "C03: the used-page counter rises by the pages of the frame"); \
		__CPROVER_assert(P##_get_size(&pool, p) == area, "C01: reported size >= request"); \
	} \
	FRGV_CANARY(); \
}
ALLOC_LARGE_H(pa, ap, pol_ap)
ALLOC_LARGE_H(pu, u, pol_u)

/* ---- _construct_slab: header at the superblock boundary, overhead rounded to a multiple of the item size, the area
 * carved into slots each threaded exactly once on the free list (C01 mechanism 2). One run per size class (class Pc);
 * the carving loop has at most SLAB/8 iterations and is fully unrolled. */
#ifndef SLAB_INDEX
#define SLAB_INDEX 5
#endif
#define CONSTRUCT_SLAB_H(P, pol, POLN, UNALIGNED) \
void h_##P##_construct_slab(void) \
{ \
	POOL_INIT(P, pool, pol); \
	const int idx = SLAB_INDEX; const size_t item = 8UL << idx; \
	frgv_track_new_hdr = sizeof(struct P##_slab_frame);          /* the header of the new slab starts out poisoned (aligned policy) */ \
	struct P##_slab_frame *slb = P##__construct_slab(&pool, idx); \
	frgv_track_new_hdr = 0; \
	__CPROVER_assert(frgv_map_calls == 1 && frgv_held_locks == 0, "exactly one map call, no lock held"); \
	if (!slb) { __CPROVER_assert(frgv_map_failed == 1, "C04: null only when Policy::map returned 0"); } \
	else { \
		uintptr_t a = frgv_p2i(slb); \
		__CPROVER_assert(frgv_map_failed == 0 && (a & (SB - 1)) == 0, "slab header at a superblock boundary"); \
		__CPROVER_assert(UNALIGNED ? a == ((frgv_last_map_ret + SB - 1) & ~(SB - 1)) : a == frgv_last_map_ret, "header placed at the first superblock boundary of the reservation"); \
		size_t overhead = slb->__b0.address - a; \
		__CPROVER_assert(overhead >= sizeof(struct P##_slab_frame) && overhead % item == 0 && overhead < SLAB && overhead < sizeof(struct P##_slab_frame) + item, "overhead: smallest multiple of the item size covering the header"); \
		__CPROVER_assert(slb->__b0.length == SLAB - overhead && slb->__b0.type == FT(POLN, slab) && slb->index == idx && slb->num_reserved == 0, "slab header fields"); \
		__CPROVER_assert(slb->__b0.sb_base == frgv_last_map_ret && slb->__b0.sb_reservation == frgv_last_map_len && frgv_last_map_len == SLAB + (UNALIGNED ? SB : 0), "C03: header records the mapping"); \
		__CPROVER_assert(slb->__b0.address >= slb->__b0.sb_base && slb->__b0.address + slb->__b0.length <= slb->__b0.sb_base + slb->__b0.sb_reservation, "C01: the carved area lies inside the reservation"); \
		/* the free list visits every slot exactly once: walking it from the head yields the slots in descending order */ \
		size_t nslots = (SLAB - overhead) / item; \
		__CPROVER_assert(nslots >= 2 || idx < NB - 1, "at least two objects of the largest class fit"); \
		struct P##_freelist *o = slb->available; \
		for (size_t k = nslots; k > 0; k--) { \
			__CPROVER_assert(frgv_p2i(o) == slb->__b0.address + (k - 1) * item, "free list threads each slot exactly once, item-aligned, inside the carved area"); \
			o = o->link; \
		} \
		__CPROVER_assert(o == 0, "free list ends after the last slot"); \
	} \
	FRGV_CANARY(); \
}
CONSTRUCT_SLAB_H(pa, ap, pol_ap, 0)
CONSTRUCT_SLAB_H(pu, u, pol_u, 1)

/* a published slab with a symbolic free list of 0..2 free slots (the rest reserved), as the pool can reach it */
#define MK_SLAB_STATE(P, POLN, pool, region, slb, idx, item, overhead, nfree) \
	MK_SLAB(P, POLN, region, slb, idx, item, overhead); \
	size_t nslots_ = (SLAB - overhead) / item; \
	size_t nfree = nondet_size_t(); __CPROVER_assume(nfree <= 2 && nfree <= nslots_); \
	size_t s0_ = nondet_size_t(), s1_ = nondet_size_t(); __CPROVER_assume(s0_ < nslots_ && s1_ < nslots_ && s0_ != s1_); \
	struct P##_freelist *fl0_ = (struct P##_freelist *)(region + overhead + s0_ * item), *fl1_ = (struct P##_freelist *)(region + overhead + s1_ * item); \
	slb->available = nfree == 0 ? 0 : fl0_; if (nfree >= 1) fl0_->link = nfree == 2 ? fl1_ : 0; if (nfree == 2) fl1_->link = 0; \
	slb->num_reserved = (unsigned)(nslots_ - nfree); \
	slb->partial_hook.parent = 0; slb->partial_hook.left = 0; slb->partial_hook.right = 0; slb->partial_hook.predecessor = 0; slb->partial_hook.successor = 0

/* ---- free_in_slab_: pushes exactly p, re-links a formerly full slab, all under the bucket mutex (C02, C03, C05) */
void h_pa_free_in_slab(void)
{
	POOL_INIT(pa, pool, ap);
	MK_SLAB_STATE(pa, pol_ap, pool, region, slb, idx, item, overhead, nfree);
	struct pa_bucket *bkt = &pool._bkts[idx];
	/* bucket state: the slab is in the partial tree iff it has free slots; another partial slab may or may not be the head */
	frgv_set_tree = &bkt->partial_tree; frgv_set_n = 0;
	struct pa_slab_frame other; other.__b0.address = nondet_size_t(); _Bool have_other = nondet_bool();
	__CPROVER_assume(other.__b0.address != slb->__b0.address);                                   /* distinct slabs have distinct addresses */
	if (have_other) frgv_set_e[frgv_set_n++] = &other;
	if (nfree) frgv_set_e[frgv_set_n++] = slb;
	bkt->head_slb = set_first(frgv_set_tree);
	size_t k = nondet_size_t(); __CPROVER_assume(k < nslots_ && (nfree < 1 || k != s0_) && (nfree < 2 || k != s1_));   /* a reserved slot */
	char *p = region + overhead + k * item;
	size_t req = nondet_size_t(); __CPROVER_assume(req <= item);
	frgv_blk = p; frgv_blk_cap = item; frgv_blk_unp = req;
	frgv_guarded = slb; frgv_guarded_lo = __builtin_offsetof(struct pa_slab_frame, num_reserved); frgv_guarded_hi = sizeof(struct pa_slab_frame); frgv_guard = &bkt->bucket_mutex;
	struct pa_freelist *old_head = slb->available;
	pa_free_in_slab_(&pool, slb, p);
	__CPROVER_assert(slb->available == (struct pa_freelist *)p && ((struct pa_freelist *)p)->link == old_head, "C02: free pushes exactly the freed object on its slab's list");
	__CPROVER_assert(frgv_blk_unp == sizeof(struct pa_freelist), "C03: a freed small block is poisoned again except for the allocator's link word");
	__CPROVER_assert(frgv_set_inserts == (nfree == 0 ? 1u : 0u) && frgv_set_removes == 0, "C02: a formerly full slab - and only such a slab - is linked back into the partial tree");
	__CPROVER_assert(bkt->head_slb == set_first(frgv_set_tree), "allocation proceeds from the lowest-address partial slab");
	__CPROVER_assert(frgv_held_locks == 0 && !bkt->bucket_mutex.held && frgv_map_calls == 0 && frgv_unmap_calls == 0, "C05/C03: lock released, no mapping activity");
	FRGV_CANARY();
}

#ifndef HIT_LEN
#define HIT_LEN 200
#endif
/* ---- allocate, small path with a partial slab available: returns the list head, which was not live before (C01, C02, C05) */
void h_pa_allocate_small_hit(void)
{
	POOL_INIT(pa, pool, ap);
	MK_SLAB_STATE(pa, pol_ap, pool, region, slb, idx, item, overhead, nfree);
	__CPROVER_assume(nfree >= 1);
	for (int b = 0; b < NB; b++) pool._bkts[b].head_slb = 0;
	struct pa_bucket *bkt = &pool._bkts[idx];
	frgv_set_tree = &bkt->partial_tree; frgv_set_n = 0;
	struct pa_slab_frame other; other.__b0.address = nondet_size_t(); _Bool have_other = nondet_bool();
	__CPROVER_assume(!have_other || other.__b0.address > slb->__b0.address);                     /* slb is the lowest-address partial slab */
	frgv_set_e[frgv_set_n++] = slb; if (have_other) frgv_set_e[frgv_set_n++] = &other;
	bkt->head_slb = slb;
	size_t len = HIT_LEN; __CPROVER_assume(len <= item && (idx == 0 || len > item / 2));     /* a request of this class (0 counts as 1) */
	frgv_blk = (char *)fl0_; frgv_blk_cap = item; frgv_blk_unp = sizeof(struct pa_freelist);      /* a free slot: only the link word is accessible */
	frgv_guarded = slb; frgv_guarded_lo = __builtin_offsetof(struct pa_slab_frame, num_reserved); frgv_guarded_hi = sizeof(struct pa_slab_frame); frgv_guard = &bkt->bucket_mutex;
	unsigned res0 = slb->num_reserved; size_t pages0 = nondet_size_t(); pool._usedPages = pages0;
	char *p = pa_allocate(&pool, len);
	__CPROVER_assert(p == (char *)fl0_, "C01: the block handed out is the head of the free list - a slot that was not live");
	__CPROVER_assert(slb->available == (nfree == 2 ? fl1_ : 0) && slb->num_reserved == res0 + 1, "the list shrinks by exactly that slot");
	__CPROVER_assert(frgv_blk_unp == (len ? len : 1), "C03: exactly the requested bytes of the new block are unpoisoned");
	__CPROVER_assert((frgv_p2i(p) & (item - 1)) == 0 && frgv_p2i(p) >= slb->__b0.address && frgv_p2i(p) + item <= slb->__b0.address + slb->__b0.length, "C01: aligned to the class size and inside the carved area");
	__CPROVER_assert(frgv_set_removes == (nfree == 1 ? 1u : 0u) && frgv_set_inserts == 0, "C02: a slab that became full - and only such a slab - leaves the partial tree");
	__CPROVER_assert(bkt->head_slb == (nfree == 1 ? (have_other ? &other : 0) : slb), "the head is the lowest-address partial slab");
	__CPROVER_assert(frgv_map_calls == 0 && pool._usedPages == pages0, "C02: freed memory is reused before anything is mapped");
	__CPROVER_assert(frgv_held_locks == 0 && !bkt->bucket_mutex.held, "C05: lock released");
	FRGV_CANARY();
}

/* ---- allocate, small path with no partial slab: map is called without locks, failure leaves the pool untouched (C04),
 * success attaches the new slab under the locks and hands out one of its slots */
/* Contract of _construct_slab used (through goto-instrument --replace-call-with-contract) in the miss-path proofs; it is
 * what h_*_construct_slab proves per size class: null when map fails, else a fresh slab whose header fields are as
 * computed and whose free list starts at the last slot and continues with the slot before it. */
#define CS_ITEM(i) (8UL << (i))
#define CS_OVH(P, i) (((sizeof(struct P##_slab_frame) + CS_ITEM(i) - 1) / CS_ITEM(i)) * CS_ITEM(i))
#define CS_N(P, i) ((SLAB - CS_OVH(P, i)) / CS_ITEM(i))
#define CONSTRUCT_SLAB_CONTRACT(P, POLN) \
struct P##_slab_frame *P##__construct_slab_contract(struct P *this, int index) \
__CPROVER_requires(frgv_held_locks == 0 && index >= 0 && index < NB) \
__CPROVER_assigns(frgv_map_calls, frgv_map_failed) \
__CPROVER_ensures(frgv_map_calls == __CPROVER_old(frgv_map_calls) + 1) \
__CPROVER_ensures(__CPROVER_return_value == 0 ? frgv_map_failed == __CPROVER_old(frgv_map_failed) + 1 : \
	(frgv_map_failed == __CPROVER_old(frgv_map_failed) && __CPROVER_is_fresh(__CPROVER_return_value, SLAB))) \
__CPROVER_ensures(__CPROVER_return_value == 0 || ( \
	__CPROVER_return_value->__b0.type == FT(POLN, slab) && __CPROVER_return_value->index == index && __CPROVER_return_value->num_reserved == 0 && \
	__CPROVER_return_value->__b0.address == (uintptr_t)__CPROVER_return_value + CS_OVH(P, index) && \
	__CPROVER_return_value->__b0.length == SLAB - CS_OVH(P, index) && \
	__CPROVER_return_value->available == (struct P##_freelist *)((char *)__CPROVER_return_value + CS_OVH(P, index) + (CS_N(P, index) - 1) * CS_ITEM(index)) && \
	__CPROVER_return_value->available->link == (CS_N(P, index) >= 2 ? (struct P##_freelist *)((char *)__CPROVER_return_value + CS_OVH(P, index) + (CS_N(P, index) - 2) * CS_ITEM(index)) : (struct P##_freelist *)0)));
CONSTRUCT_SLAB_CONTRACT(pa, pol_ap)
CONSTRUCT_SLAB_CONTRACT(pu, pol_u)
#define ALLOC_SMALL_MISS_H(P, pol, POLN) \
void h_##P##_allocate_small_miss(void) \
{ \
	POOL_INIT(P, pool, pol); \
	for (int b = 0; b < NB; b++) pool._bkts[b].head_slb = 0; \
	const int idx = SLAB_INDEX; const size_t item = 8UL << idx; \
	frgv_set_tree = &pool._bkts[idx].partial_tree; frgv_set_n = 0; frgv_guard = &pool._bkts[idx].bucket_mutex; \
	size_t len = HIT_LEN; __CPROVER_assume(len <= item && (idx == 0 || len > item / 2)); \
	size_t pages0 = nondet_size_t(); __CPROVER_assume(pages0 < 0x100000); pool._usedPages = pages0; \
	char *p = P##_allocate(&pool, len); \
	struct P##_bucket *bkt = &pool._bkts[idx]; \
	__CPROVER_assert(frgv_held_locks == 0 && !bkt->bucket_mutex.held && !pool._tree_mutex.held, "C04/C05: no lock is held on return, also when map failed"); \
	__CPROVER_assert(frgv_map_calls == 1, "C02: a new slab is mapped only because the bucket had no partial slab"); \
	if (!p) { __CPROVER_assert(frgv_map_failed == 1 && pool._usedPages == pages0 && bkt->head_slb == 0 && frgv_set_n == 0, "C04: null only when map failed, and then the pool is untouched"); } \
	else { \
		struct P##_slab_frame *slb = (struct P##_slab_frame *)FRGV_I2P((frgv_p2i(p) - 1) & ~(SB - 1)); \
		__CPROVER_assert(frgv_map_failed == 0 && bkt->head_slb == slb && frgv_set_n == 1 && frgv_set_e[0] == slb, "the new slab is attached to its bucket (it still has free slots)"); \
		__CPROVER_assert(slb->index == idx && slb->num_reserved == 1 && frgv_p2i(p) >= slb->__b0.address && frgv_p2i(p) + item <= slb->__b0.address + slb->__b0.length && ((frgv_p2i(p) - slb->__b0.address) % item) == 0, "C01: the block is a slot of the new slab"); \
		__CPROVER_assert(pool._usedPages == pages0 + (slb->__b0.length + PAGE) / PAGE, "C03: used pages rise when the region is taken"); \
		__CPROVER_assert(p == (char *)slb + CS_OVH(P, idx) + (CS_N(P, idx) - 1) * item, "C01: the block handed out is the head of the new slab's free list"); \
		__CPROVER_assert(slb->available == (CS_N(P, idx) >= 2 ? (struct P##_freelist *)((char *)slb + CS_OVH(P, idx) + (CS_N(P, idx) - 2) * item) : (struct P##_freelist *)0), "C01: the free list continues with the next slot - the slot handed out is no longer on it"); \
	} \
	FRGV_CANARY(); \
}
ALLOC_SMALL_MISS_H(pa, ap, pol_ap)
ALLOC_SMALL_MISS_H(pu, u, pol_u)

/* ---- free / deallocate / realloc dispatch on large blocks and the null cases (C02, C03) */
#ifndef RE_OLD
#define RE_OLD 300
#define RE_NEW 700
#endif
#define DISPATCH_H(P, pol, POLN, UNALIGNED) \
void h_##P##_free_null(void) \
{ \
	POOL_INIT(P, pool, pol); size_t pages0 = nondet_size_t(); pool._usedPages = pages0; \
	P##_free(&pool, 0); P##_deallocate(&pool, 0, nondet_size_t()); \
	__CPROVER_assert(frgv_map_calls == 0 && frgv_unmap_calls == 0 && frgv_held_locks == 0 && pool._usedPages == pages0, "C02: free(null) and deallocate(null, n) are no-ops"); \
	FRGV_CANARY(); \
} \
void h_##P##_free_large(void) \
{ \
	POOL_INIT(P, pool, pol); \
	MK_LARGE(P, POLN, UNALIGNED, region, f, area); \
	size_t before = nondet_size_t(); __CPROVER_assume(before >= (area + PAGE) / PAGE); pool._usedPages = before; \
	frgv_region_live = 1; frgv_region_ret = f->sb_base; frgv_region_len = f->sb_reservation; \
	frgv_hdr = (char *)f; frgv_hdr_len = sizeof(*f); frgv_hdr_poisoned = 0; frgv_hdr_unp = frgv_hdr_len; \
	_Bool sized = nondet_bool(); size_t sz = nondet_size_t(); __CPROVER_assume(sz <= area); \
	if (sized) P##_deallocate(&pool, FRGV_I2P(f->address), sz); else P##_free(&pool, FRGV_I2P(f->address)); \
	__CPROVER_assert(frgv_unmap_calls == 1 && !frgv_region_live && pool._usedPages == before - (area + PAGE) / PAGE && frgv_held_locks == 0, \
	                 "C03: free/deallocate of a large block finds its frame by rounding, returns the whole reservation once and fixes the accounting"); \
	FRGV_CANARY(); \
} \
void h_##P##_realloc_large(void)      /* RE_OLD -> RE_NEW bytes, both large: in place iff it fits, else allocate + copy + free */ \
{ \
	POOL_INIT(P, pool, pol); \
	size_t pages0 = nondet_size_t(); __CPROVER_assume(pages0 < 0x100000); pool._usedPages = pages0; \
	char *p = P##_allocate(&pool, RE_OLD); \
	if (p) { \
		unsigned maps0 = frgv_map_calls, fails0 = frgv_map_failed; \
		struct P##_frame *f = (struct P##_frame *)FRGV_I2P((frgv_p2i(p) - 1) & ~(SB - 1)); \
		size_t cap = f->length; size_t k = nondet_size_t(); __CPROVER_assume(k < RE_OLD && k < RE_NEW); \
		char pat = (char)nondet_size_t(); p[k] = pat; \
		frgv_region_live = 1; frgv_region_ret = f->sb_base; frgv_region_len = f->sb_reservation; \
		frgv_blk = p; frgv_blk_cap = cap; frgv_blk_unp = RE_OLD; frgv_hdr = (char *)f; frgv_hdr_len = sizeof(*f); frgv_hdr_poisoned = 0; frgv_hdr_unp = frgv_hdr_len; \
		char *q = P##_realloc(&pool, p, RE_NEW); \
		if (RE_NEW <= cap) { __CPROVER_assert(q == p && frgv_map_calls == maps0 && frgv_unmap_calls == 0, "C02: realloc is in place when the new size fits the frame: no map, no unmap"); } \
		else if (!q) { __CPROVER_assert(frgv_map_failed == fails0 + 1 && frgv_unmap_calls == 0 && frgv_region_live && p[k] == pat, "C04: when the allocation inside realloc fails the source block stays valid with its contents"); } \
		else { __CPROVER_assert(q != p && frgv_unmap_calls == 1 && !frgv_region_live, "C02: the old block is freed exactly once, after it moved"); \
		       __CPROVER_assert(q[k] == pat, "C02: the first min(old, new) bytes are preserved"); } \
		__CPROVER_assert(frgv_held_locks == 0, "C05: no lock is held on return"); \
	} \
	FRGV_CANARY(); \
}
DISPATCH_H(pa, ap, pol_ap, 0)
DISPATCH_H(pu, u, pol_u, 1)

/* ---- realloc on a slab block, with allocate/free replaced by their contracts (goto-instrument --replace-call-with-contract):
 * (null, n) is allocate(n); (p, 0) is free(p); in place iff the new size fits the class; otherwise allocate, copy the
 * whole old block - which must be unpoisoned first (C03) -, then free the old block exactly once; if the allocation
 * fails the old block is untouched (C04). */
unsigned frgv_alloc_calls, frgv_free_calls2; size_t frgv_alloc_len; void *frgv_free_arg; _Bool frgv_copied;
void *pa_allocate_contract(struct pa *this, unsigned long length)
__CPROVER_requires(frgv_held_locks == 0)
__CPROVER_assigns(frgv_alloc_calls, frgv_alloc_len)
__CPROVER_ensures(frgv_alloc_calls == __CPROVER_old(frgv_alloc_calls) + 1 && frgv_alloc_len == length)
__CPROVER_ensures(__CPROVER_return_value == 0 || __CPROVER_is_fresh(__CPROVER_return_value, length));
void pa_free_contract(struct pa *this, void *p)
__CPROVER_requires(frgv_held_locks == 0)
__CPROVER_assigns(frgv_free_calls2, frgv_free_arg)
__CPROVER_ensures(frgv_free_calls2 == __CPROVER_old(frgv_free_calls2) + 1 && frgv_free_arg == p);

#ifndef RS_NEW
#define RS_NEW 300
#endif
void h_pa_realloc_slab(void)
{
	POOL_INIT(pa, pool, ap);
	MK_SLAB(pa, pol_ap, region, slb, idx, item, overhead);
	size_t k = nondet_size_t(); __CPROVER_assume(k < (SLAB - overhead) / item);
	char *p = region + overhead + k * item;
	size_t oldreq = nondet_size_t(); __CPROVER_assume(oldreq <= item);
	size_t g = nondet_size_t(); __CPROVER_assume(RS_NEW == 0 ? g < item : (g < oldreq && g < RS_NEW)); char pat = p[g];
	frgv_blk = p; frgv_blk_cap = item; frgv_blk_unp = oldreq; frgv_alloc_calls = 0; frgv_free_calls2 = 0; frgv_copied = 0;
	char *q = pa_realloc(&pool, p, RS_NEW);
	if (RS_NEW == 0) { __CPROVER_assert(q == 0 && frgv_free_calls2 == 1 && frgv_free_arg == p && frgv_alloc_calls == 0, "C02: realloc(p, 0) frees p and returns null"); }
	else if (RS_NEW <= item) { __CPROVER_assert(q == p && frgv_alloc_calls == 0 && frgv_free_calls2 == 0 && frgv_blk_unp == RS_NEW, "C02: in place when the new size fits the class; exactly the new size is unpoisoned"); }
	else {
		__CPROVER_assert(frgv_alloc_calls == 1 && frgv_alloc_len == RS_NEW, "C02: otherwise one allocation of the new size");
		if (!q) __CPROVER_assert(frgv_free_calls2 == 0 && frgv_blk_unp == oldreq && p[g] == pat, "C04: if that allocation fails the source block is untouched and stays live");
		else __CPROVER_assert(q != p && frgv_free_calls2 == 1 && frgv_free_arg == p && q[g] == pat, "C02: the old contents are copied and the old block is freed exactly once");
	}
	__CPROVER_assert(frgv_held_locks == 0, "C05: no lock held on return");
	FRGV_CANARY();
}
/* realloc of a LARGE block that does not fit its frame any more: one allocation of the new size, the whole old area is copied (every byte
 * of it that the owner may have written: position g is arbitrary), the old block is freed once; allocate/free replaced by their contracts */
#ifndef RL_NEW
#define RL_AREA 0x200
#define RL_NEW 0x300
#endif
void h_pa_realloc_large_move(void)
{
	POOL_INIT(pa, pool, ap);
	const size_t area = RL_AREA;                       /* concrete: a copy of symbolic length is beyond the solver */
	char *region = arena_alloc(area + PAGE);
	uintptr_t ra_ = frgv_p2i(region);
	struct pa_frame *f = (struct pa_frame *)region;
	f->type = FT(pol_ap, large); f->address = ra_ + PAGE; f->length = area; f->sb_base = ra_; f->sb_reservation = area + PAGE;
	char *p = region + PAGE;
	size_t g = nondet_size_t(); __CPROVER_assume(g < area); char pat = p[g];
	frgv_blk = p; frgv_blk_cap = area; frgv_blk_unp = area; frgv_alloc_calls = 0; frgv_free_calls2 = 0;
	frgv_hdr = (char *)f; frgv_hdr_len = sizeof(*f); frgv_hdr_poisoned = 0; frgv_hdr_unp = frgv_hdr_len;
	char *q = pa_realloc(&pool, p, RL_NEW);
	__CPROVER_assert(frgv_alloc_calls == 1 && frgv_alloc_len == RL_NEW, "C02: a large block that no longer fits its frame is reallocated by one allocation of the new size");
	if (!q) __CPROVER_assert(frgv_free_calls2 == 0 && p[g] == pat, "C04: if that allocation fails the source block is untouched and stays live");
	else __CPROVER_assert(q != p && frgv_free_calls2 == 1 && frgv_free_arg == p && q[g] == pat, "C02: the old contents (the whole old area) are copied and the old block is freed exactly once");
	__CPROVER_assert(frgv_held_locks == 0, "C05: no lock held on return");
	FRGV_CANARY();
}
void h_pa_realloc_null(void)
{
	POOL_INIT(pa, pool, ap); frgv_alloc_calls = 0; frgv_free_calls2 = 0;
	size_t n = nondet_size_t();
	char *q = pa_realloc(&pool, 0, n);
	__CPROVER_assert(frgv_alloc_calls == 1 && frgv_alloc_len == n && frgv_free_calls2 == 0, "C02: realloc(null, n) is allocate(n)");
	FRGV_CANARY();
}
