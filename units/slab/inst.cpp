// Instantiation TU: slab_pool (C01..C05).
#include <stddef.h>
#include <stdint.h>
#include <new>
#include <frg/slab.hpp>

namespace frgv {
struct vmutex {
	bool held;            // ghost state of the stub: this mutex is currently held
	void lock();
	void unlock();
};
// small configuration, aligned map, poisoning hooks
struct pol_ap {
	static constexpr size_t pagesize = 0x100;
	static constexpr size_t slabsize = 0x400;
	static constexpr size_t sb_size = 0x400;
	static constexpr int num_buckets = 6;
	uintptr_t map(size_t length, size_t align);
	void unmap(uintptr_t base, size_t length);
	void poison(void *p, size_t n);
	void unpoison(void *p, size_t n);
	void unpoison_expand(void *p, size_t n);
};
// small configuration, unaligned map, no poisoning
struct pol_u {
	static constexpr size_t pagesize = 0x100;
	static constexpr size_t slabsize = 0x400;
	static constexpr size_t sb_size = 0x400;
	static constexpr int num_buckets = 6;
	uintptr_t map(size_t length);
	void unmap(uintptr_t base, size_t length);
};
// page size == superblock size (large user areas are then superblock-aligned: the frame lookup must round (p - 1), not p)
struct pol_e {
	static constexpr size_t pagesize = 0x400;
	static constexpr size_t slabsize = 0x400;
	static constexpr size_t sb_size = 0x400;
	static constexpr int num_buckets = 6;
	uintptr_t map(size_t length, size_t align);
	void unmap(uintptr_t base, size_t length);
};
// default configuration (256 KiB slabs and superblocks, 4 KiB pages, 13 buckets), aligned map, no poisoning
struct pol_d {
	uintptr_t map(size_t length, size_t align);
	void unmap(uintptr_t base, size_t length);
};
using A_pd = frg::slab_pool<pol_d, vmutex>;
using A_pa = frg::slab_pool<pol_ap, vmutex>;
using A_pu = frg::slab_pool<pol_u, vmutex>;
using A_pe = frg::slab_pool<pol_e, vmutex>;
using A_ulock = frg::unique_lock<vmutex>;
// the per-bucket tree of partially used slabs (private typedefs: the TU is compiled with -fno-access-control)
using A_pa_tree = A_pa::partial_tree_type;
using A_pu_tree = A_pu::partial_tree_type;
using A_pe_tree = A_pe::partial_tree_type;
using A_pa_treeb = frg::_redblack::tree_crtp_struct<A_pa_tree, A_pa::slab_frame, &A_pa::slab_frame::partial_hook, frg::null_aggregator>;
using A_pu_treeb = frg::_redblack::tree_crtp_struct<A_pu_tree, A_pu::slab_frame, &A_pu::slab_frame::partial_hook, frg::null_aggregator>;
using A_pe_treeb = frg::_redblack::tree_crtp_struct<A_pe_tree, A_pe::slab_frame, &A_pe::slab_frame::partial_hook, frg::null_aggregator>;
using A_aa = frg::slab_allocator<pol_ap, vmutex>;
}
template class frg::slab_pool<frgv::pol_ap, frgv::vmutex>;
template class frg::slab_pool<frgv::pol_u, frgv::vmutex>;
template class frg::slab_pool<frgv::pol_d, frgv::vmutex>;
template class frg::slab_pool<frgv::pol_e, frgv::vmutex>;
template class frg::slab_allocator<frgv::pol_ap, frgv::vmutex>;
