/* slab unit: access hooks (included before the prelude): every access the pool makes through freelist/frame/slab_frame
 * pointers, and its memcpy, is routed through the ghost poison / guarded-by checks of harness.c.
 * Address model: CBMC's own pointer/integer encoding (object number in the high bits, offset in the low bits): the
 * base of every object is numerically aligned to any power of two the pool uses, so an aligned Policy::map needs no
 * extra modelling. (A flat-arena address model was tried and was an order of magnitude slower.) */
#ifndef FRGV_SLAB_HOOKS_H
#define FRGV_SLAB_HOOKS_H
#include <stddef.h>
#include <stdint.h>
void frgv_access(void *a, size_t n);
void *frgv_memcpy(void *d, void *s, size_t n);
#define FRGV_ACCESS_HOOK(a, n) frgv_access((a), (n))
#endif
