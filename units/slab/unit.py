UNIT = dict(
    name='slab',
    roots=['rec:pa*', 'rec:pu*', 'rec:pd*', 'rec:pe', 'rec:pe_*'],
    clang_flags=['-fno-access-control'],
    first_includes=['hooks.h'],
    pre_includes=['spec.h'],
    sources=['harness.c'],
    extern=['pa_tree_insert', 'pa_treeb_remove', 'pa_treeb_first', 'pu_tree_insert', 'pu_treeb_remove', 'pu_treeb_first', 'pe_tree_insert', 'pe_treeb_remove', 'pe_treeb_first'],
    lower_opts=dict(access_hooks=['pa_freelist', 'pa_frame', 'pa_slab_frame', 'pa_bucket', 'pu_freelist', 'pu_frame', 'pu_slab_frame', 'pu_bucket']),
    assumptions=['the per-bucket partial tree is replaced by its contract (an address-ordered set of at most two slabs); the rbtree itself is checked in C06',
                 'policy stub: map returns 0 (nondeterministically, at every call) or the address of a fresh object of the requested length; unmap gives it back; poison hooks drive a ghost poison state of one tracked block and one tracked header',
                 'mutex stub records ownership only (the property grants a correct mutex); no interleavings are explored',
                 'configurations: small (page 0x100, slab = superblock = 0x400, 6 buckets) with aligned map + poisoning (pa) and unaligned map (pu); default (4 KiB pages, 256 KiB slabs, 13 buckets) for the size-class arithmetic (pd)'],
)
def obligations(tier):
    obs = []
    def add(i, entry, fn, serves, unwind=None, **kw):
        if 'sizeclass' not in i and 'pageround' not in i and not kw.get('narrow'):
            # the pool properties overlap (a wrong carve breaks validity, accounting and in-place realloc alike): every pool run serves C01-C04
            serves = sorted(set(serves) | {'C01', 'C02', 'C03', 'C04'})
        o = dict(id='slab.' + i, entry=entry, cls='Pc', serves=serves, function=fn, unwind=unwind, recursion=2, timeout=900, cost=(10 if 'small' in i or 'construct_slab' in i else 1))
        o.update(kw)
        if o.get('bound'):
            o['cls'] = 'B'      # one request length / size class / path out of a family that is not enumerated completely: a bounded stand-in
        obs.append(o)
    for p in ('pa', 'pu', 'pd'):
        add('%s.sizeclass' % p, 'h_%s_sizeclass' % p, '%s_size_to_bucket' % p, ['C01'], unwind=6)
    add('pa.pageround', 'h_pa_pageround', 'pa_allocate', ['C01'])
    for p in ('pa', 'pu'):
        add('%s.construct_large' % p, 'h_%s_construct_large' % p, '%s__construct_large' % p, ['C01', 'C03', 'C04', 'C05'])
        add('%s.free_huge' % p, 'h_%s_free_huge' % p, '%s_free_huge_' % p, ['C03', 'C05'])
    # frame lookup when the page size equals the superblock size (large user areas are superblock-aligned)
    add('pe.get_size_large', 'h_pe_get_size_large', 'pe_get_size', ['C01'])
    add('pe.get_size_slab', 'h_pe_get_size_slab', 'pe_get_size', ['C01'])
    add('pa.reallocate_in_slab', 'h_pa_reallocate_in_slab', 'pa_reallocate_in_slab_', ['C02', 'C03'])
    add('pa.reallocate_huge', 'h_pa_reallocate_huge', 'pa_reallocate_huge_', ['C02', 'C03'])
    for p in ('pa', 'pu'):
        add('%s.get_size_slab' % p, 'h_%s_get_size_slab' % p, '%s_get_size' % p, ['C01'])
        add('%s.get_size_large' % p, 'h_%s_get_size_large' % p, '%s_get_size' % p, ['C01'])
        for ln in ((300,) if tier == 'quick' else (257, 300, 768, 4096)):
            add('%s.allocate_large.len%d' % (p, ln), 'h_%s_allocate_large' % p, '%s_allocate' % p, ['C01', 'C03', 'C04', 'C05'], unwind=8, defines=['ALLOC_LEN=%d' % ln], bound='request of %d bytes (page rounding is proved for every length in pa.pageround)' % ln)
    lens = {0: [0, 1, 8], 1: [9, 16], 2: [17, 32], 3: [33, 64], 4: [65, 128], 5: [129, 200, 256]}
    # the carving loop on the success path of map (addresses concrete): every size class in quick
    for p in ('pa',):
        for idx in ((5, 3) if tier == 'quick' else range(6)):
            add('%s.construct_slab_ok.class%d' % (p, idx), 'h_%s_construct_slab' % p, '%s__construct_slab' % p, ['C01', 'C03', 'C05'],
                unwind=0x400 // (8 << idx) + 4, defines=['SLAB_INDEX=%d' % idx, 'MAP_SUCCEEDS'], bound='size class %d (%d-byte objects): carving loop fully unrolled; Policy::map succeeds' % (idx, 8 << idx),
                cost=20, timeout=1500)
    # (the variant in which Policy::map fails nondeterministically inside one run needs more than 44 GB for the unaligned policy and was dropped:
    # the success path (construct_slab_ok) and the failure path (construct_slab_mapfail) are run separately instead)
    for idx in range(6):
        for ln in (lens[idx][-1:] if tier == 'quick' and idx not in (0, 5) else lens[idx]):
            add('pa.allocate_small_hit.class%d.len%d' % (idx, ln), 'h_pa_allocate_small_hit', 'pa_allocate', ['C01', 'C02', 'C03', 'C05'], unwind=8,
                defines=['MK_SLAB_IDX=%d' % idx, 'HIT_LEN=%d' % ln], bound='size class %d, request of %d bytes, slab with 1 or 2 free slots' % (idx, ln))
    # Policy::map failing (C04): slab construction and the miss path return null and leave the pool untouched, for both kinds of policy
    for p in ('pa', 'pu'):
        add('%s.construct_slab_mapfail' % p, 'h_%s_construct_slab' % p, '%s__construct_slab' % p, ['C04', 'C05'], unwind=8, defines=['SLAB_INDEX=5', 'MAP_FAILS'], bound='Policy::map returns 0')
        add('%s.allocate_small_miss_mapfail' % p, 'h_%s_allocate_small_miss' % p, '%s_allocate' % p, ['C04', 'C05'], unwind=8, defines=['SLAB_INDEX=5', 'HIT_LEN=200', 'MAP_FAILS'], bound='empty bucket, Policy::map returns 0')
        add('%s.allocate_large_mapfail' % p, 'h_%s_allocate_large' % p, '%s_allocate' % p, ['C04', 'C05'], unwind=8, defines=['ALLOC_LEN=300', 'MAP_FAILS'], bound='request of 300 bytes, Policy::map returns 0')
    # the miss path (empty bucket: map a slab, carve it, hand out its first slot, attach it) on the success path of map
    for idx, ln in (((5, 200), (3, 64)) if tier == 'quick' else ((5, 200), (5, 256), (4, 128), (3, 64), (2, 32), (1, 16), (0, 0), (0, 8))):
        add('pa.allocate_small_miss_ok.class%d.len%d' % (idx, ln), 'h_pa_allocate_small_miss', 'pa_allocate', ['C01', 'C02', 'C03', 'C05'], unwind=0x400 // (8 << idx) + 4,
            defines=['SLAB_INDEX=%d' % idx, 'HIT_LEN=%d' % ln, 'MAP_SUCCEEDS'], bound='size class %d, request of %d bytes, empty bucket; Policy::map succeeds' % (idx, ln), cost=20, timeout=1500)
    add('pa.free_in_slab', 'h_pa_free_in_slab', 'pa_free_in_slab_', ['C02', 'C03', 'C05'], unwind=8)
    rep = ['pa_allocate/pa_allocate_contract', 'pa_free/pa_free_contract']
    for ns in ((5, 257) if tier == 'quick' else (0, 5, 256, 257, 600)):
        add('pa.realloc_slab.new%d' % ns, 'h_pa_realloc_slab', 'pa_realloc', ['C02', 'C03', 'C04', 'C05'], unwind=8, replace=rep,
            defines=['RS_NEW=%d' % ns], bound='realloc of any block of any slab class to %d bytes; allocate/free replaced by their contracts' % ns)
    for a_, n_ in (((0x200, 0x300),) if tier == 'quick' else ((0x200, 0x300), (0x100, 0x101))):
        add('pa.realloc_large_move.%x_%x' % (a_, n_), 'h_pa_realloc_large_move', 'pa_realloc', ['C01', 'C02', 'C03', 'C04', 'C05'], unwind=8, replace=rep,
            defines=['RL_AREA=%d' % a_, 'RL_NEW=%d' % n_], bound='realloc of a large block with a %#x-byte area to %#x bytes; allocate/free replaced by their contracts' % (a_, n_))
    add('pa.realloc_null', 'h_pa_realloc_null', 'pa_realloc', ['C02'], unwind=8, replace=rep)
    for p in ('pa', 'pu'):
        add('%s.free_null' % p, 'h_%s_free_null' % p, '%s_free' % p, ['C02'], unwind=8)
        add('%s.free_large' % p, 'h_%s_free_large' % p, '%s_free' % p, ['C03'], unwind=8, tiers=['thorough'], heavy=True, timeout=3000, narrow=True)
    # dispatch on large blocks with Policy::map succeeding (addresses stay concrete, which keeps these in the quick tier)
    # (free of a large block through the dispatcher and a moving realloc between large frames run out of memory even so; the first stays in the
    # thorough tier with the larger memory limit, the second is covered by pa.realloc_large_move with allocate/free replaced by their contracts)
    pairs = ((300, 500), (700, 300)) if tier == 'quick' else ((300, 500), (300, 512), (700, 300))
    for o_, n_ in pairs:
        add('pa.realloc_large_ok.%d_%d' % (o_, n_), 'h_pa_realloc_large', 'pa_realloc', ['C01', 'C02', 'C03', 'C04', 'C05'], unwind=8,
            defines=['MAP_SUCCEEDS', 'RE_OLD=%d' % o_, 'RE_NEW=%d' % n_], bound='realloc of a large block of %d bytes to %d bytes; Policy::map succeeds' % (o_, n_), timeout=1500, cost=20)
    return obs
