// Instantiation TU: lock guards and spinlocks (C12).
#include <frg/mutex.hpp>
#include <frg/spinlock.hpp>
#include <frg/qs.hpp>
namespace frgv {
struct cmutex {           // counting mutex stub: the counters are ghost state of the stub
	unsigned locks, unlocks, slocks, sunlocks;
	void lock();
	void unlock();
	void lock_shared();
	void unlock_shared();
};
using A_ul = frg::unique_lock<cmutex>;
using A_sl = frg::shared_lock<cmutex>;
using A_lg = frg::lock_guard<cmutex>;
using A_tsl = frg::ticket_spinlock;
using A_ssl = frg::simple_spinlock;
void frgv_force(cmutex *m, A_ul &a, A_ul &b, A_sl &c, A_sl &d) {
	auto g = frg::guard(m);
	auto g2 = frg::guard(frg::dont_lock, m);
	swap(a, b);
	swap(c, d);
	A_tsl t; t.lock(); (void)t.is_locked(); t.unlock();
	A_ssl s; s.lock(); (void)s.is_locked(); s.unlock();
}
}
template class frg::unique_lock<frgv::cmutex>;
template class frg::shared_lock<frgv::cmutex>;
template struct frg::lock_guard<frgv::cmutex>;
