/* Contracts for the lock guards (C12).  The mutex is a counting stub: locks/unlocks/slocks/sunlocks
 * count the calls that reached it, so "holds it exactly once / releases exactly once through the
 * matching call / transfers without a double or missing release" are arithmetic facts about counters. */
#define MX(m) __CPROVER_is_fresh(m, sizeof(struct frgv_cmutex))
#define B01(x) ((x) == 0 || (x) == 1)
#define OLD(e) __CPROVER_old(e)
#define COUNTS_ARE(m, o) ((m)->locks == OLD((o)->locks) && (m)->unlocks == OLD((o)->unlocks) && \
                          (m)->slocks == OLD((o)->slocks) && (m)->sunlocks == OLD((o)->sunlocks))
#define SAME_COUNTS(m) ((m)->locks == OLD((m)->locks) && (m)->unlocks == OLD((m)->unlocks) && \
                        (m)->slocks == OLD((m)->slocks) && (m)->sunlocks == OLD((m)->sunlocks))

/* The same text is instantiated for unique_lock (lock/unlock) and shared_lock (lock_shared/unlock_shared):
 * ACQ/REL name the counter the guard must bump, OTHER_* the ones it must leave alone. */
#define GUARD_CONTRACTS(G, ACQ, REL, XACQ, XREL) \
void G##_ctor_default_contract(struct G *this) \
__CPROVER_requires(__CPROVER_is_fresh(this, sizeof(*this))) __CPROVER_assigns(__CPROVER_object_whole(this)) \
__CPROVER_ensures(this->_mutex == NULL && !this->_is_locked); \
void G##_ctor_0_contract(struct G *this, struct frg_dont_lock_t t, struct frgv_cmutex *mutex)   /* deferred */ \
__CPROVER_requires(__CPROVER_is_fresh(this, sizeof(*this)) && MX(mutex)) __CPROVER_assigns(__CPROVER_object_whole(this)) \
__CPROVER_ensures(this->_mutex == mutex && !this->_is_locked && SAME_COUNTS(mutex)); \
void G##_ctor_1_contract(struct G *this, struct frg_adopt_lock_t t, struct frgv_cmutex *mutex)  /* adopted */ \
__CPROVER_requires(__CPROVER_is_fresh(this, sizeof(*this)) && MX(mutex)) __CPROVER_assigns(__CPROVER_object_whole(this)) \
__CPROVER_ensures(this->_mutex == mutex && this->_is_locked == 1 && SAME_COUNTS(mutex)); \
void G##_ctor_2_contract(struct G *this, struct frgv_cmutex *mutex)                             /* locked */ \
__CPROVER_requires(__CPROVER_is_fresh(this, sizeof(*this)) && MX(mutex)) \
__CPROVER_assigns(__CPROVER_object_whole(this), __CPROVER_object_whole(mutex)) \
__CPROVER_ensures(this->_mutex == mutex && this->_is_locked == 1) \
__CPROVER_ensures(mutex->ACQ == OLD(mutex->ACQ) + 1 && mutex->REL == OLD(mutex->REL) && \
                  mutex->XACQ == OLD(mutex->XACQ) && mutex->XREL == OLD(mutex->XREL)); \
void G##_lock_contract(struct G *this) \
__CPROVER_requires(__CPROVER_is_fresh(this, sizeof(*this)) && MX(this->_mutex) && !this->_is_locked) \
__CPROVER_assigns(this->_is_locked, __CPROVER_object_whole(this->_mutex)) \
__CPROVER_ensures(this->_is_locked == 1 && this->_mutex == OLD(this->_mutex)) \
__CPROVER_ensures(this->_mutex->ACQ == OLD(this->_mutex->ACQ) + 1 && this->_mutex->REL == OLD(this->_mutex->REL) && \
                  this->_mutex->XACQ == OLD(this->_mutex->XACQ) && this->_mutex->XREL == OLD(this->_mutex->XREL)); \
void G##_unlock_contract(struct G *this) \
__CPROVER_requires(__CPROVER_is_fresh(this, sizeof(*this)) && MX(this->_mutex) && this->_is_locked == 1) \
__CPROVER_assigns(this->_is_locked, __CPROVER_object_whole(this->_mutex)) \
__CPROVER_ensures(!this->_is_locked && this->_mutex == OLD(this->_mutex)) \
__CPROVER_ensures(this->_mutex->REL == OLD(this->_mutex->REL) + 1 && this->_mutex->ACQ == OLD(this->_mutex->ACQ) && \
                  this->_mutex->XACQ == OLD(this->_mutex->XACQ) && this->_mutex->XREL == OLD(this->_mutex->XREL)); \
/* destruction: exactly one matching release iff the guard owned the lock */ \
void G##_dtor_contract__owning(struct G *this) \
__CPROVER_requires(__CPROVER_is_fresh(this, sizeof(*this)) && MX(this->_mutex) && this->_is_locked == 1) \
__CPROVER_assigns(this->_is_locked, __CPROVER_object_whole(this->_mutex)) \
__CPROVER_ensures(this->_mutex->REL == OLD(this->_mutex->REL) + 1 && this->_mutex->ACQ == OLD(this->_mutex->ACQ) && \
                  this->_mutex->XACQ == OLD(this->_mutex->XACQ) && this->_mutex->XREL == OLD(this->_mutex->XREL)); \
void G##_dtor_contract__deferred(struct G *this) \
__CPROVER_requires(__CPROVER_is_fresh(this, sizeof(*this)) && MX(this->_mutex) && !this->_is_locked) \
__CPROVER_assigns() \
__CPROVER_ensures(SAME_COUNTS(this->_mutex)); \
void G##_dtor_contract__empty(struct G *this) \
__CPROVER_requires(__CPROVER_is_fresh(this, sizeof(*this)) && this->_mutex == NULL && !this->_is_locked) \
__CPROVER_assigns() __CPROVER_ensures(this->_mutex == NULL); \
/* move construction: ownership moves, the source owns nothing, the mutex is not touched */ \
void G##_ctor_move_contract(struct G *this, struct G *other) \
__CPROVER_requires(__CPROVER_is_fresh(this, sizeof(*this)) && __CPROVER_is_fresh(other, sizeof(*other)) && \
                   MX(other->_mutex) && B01(other->_is_locked)) \
__CPROVER_assigns(__CPROVER_object_whole(this), __CPROVER_object_whole(other)) \
__CPROVER_ensures(this->_mutex == OLD(other->_mutex) && this->_is_locked == OLD(other->_is_locked)) \
__CPROVER_ensures(other->_mutex == NULL && !other->_is_locked && COUNTS_ARE(this->_mutex, other->_mutex)); \
/* assignment takes its argument by value: the states are exchanged, so the caller's temporary releases \
 * what the destination owned before - no release is lost and none happens twice (the mutexes are untouched here) */ \
struct G *G##_assign_contract(struct G *this, struct G *other) \
__CPROVER_requires(__CPROVER_is_fresh(this, sizeof(*this)) && __CPROVER_is_fresh(other, sizeof(*other)) && \
                   MX(this->_mutex) && MX(other->_mutex) && B01(this->_is_locked) && B01(other->_is_locked)) \
__CPROVER_assigns(__CPROVER_object_whole(this), __CPROVER_object_whole(other)) \
__CPROVER_ensures(__CPROVER_return_value == this) \
__CPROVER_ensures(this->_mutex == OLD(other->_mutex) && this->_is_locked == OLD(other->_is_locked)) \
__CPROVER_ensures(other->_mutex == OLD(this->_mutex) && other->_is_locked == OLD(this->_is_locked)) \
__CPROVER_ensures(COUNTS_ARE(this->_mutex, other->_mutex) && COUNTS_ARE(other->_mutex, this->_mutex)); \
struct G *G##_assign_contract__same_mutex(struct G *this, struct G *other) \
__CPROVER_requires(__CPROVER_is_fresh(this, sizeof(*this)) && __CPROVER_is_fresh(other, sizeof(*other)) && \
                   MX(this->_mutex) && other->_mutex == this->_mutex && B01(this->_is_locked) && B01(other->_is_locked)) \
__CPROVER_assigns(__CPROVER_object_whole(this), __CPROVER_object_whole(other)) \
__CPROVER_ensures(__CPROVER_return_value == this) \
__CPROVER_ensures(this->_mutex == other->_mutex && this->_is_locked == OLD(other->_is_locked) && \
                  other->_is_locked == OLD(this->_is_locked) && SAME_COUNTS(this->_mutex)); \
_Bool G##_is_locked_contract(struct G *this) \
__CPROVER_requires(__CPROVER_is_fresh(this, sizeof(*this)) && B01(this->_is_locked)) __CPROVER_assigns() \
__CPROVER_ensures(__CPROVER_return_value == this->_is_locked); \
_Bool G##_protects_contract(struct G *this, struct frgv_cmutex *mutex) \
__CPROVER_requires(__CPROVER_is_fresh(this, sizeof(*this)) && B01(this->_is_locked)) __CPROVER_assigns() \
__CPROVER_ensures(__CPROVER_return_value == (this->_is_locked && mutex == this->_mutex));

GUARD_CONTRACTS(ul, locks, unlocks, slocks, sunlocks)
GUARD_CONTRACTS(sl, slocks, sunlocks, locks, unlocks)

#define SWAP_CONTRACT(fn, G) \
void fn##_contract(struct G *u, struct G *v) \
__CPROVER_requires(__CPROVER_is_fresh(u, sizeof(*u)) && __CPROVER_is_fresh(v, sizeof(*v)) && B01(u->_is_locked) && B01(v->_is_locked)) \
__CPROVER_assigns(__CPROVER_object_whole(u), __CPROVER_object_whole(v)) \
__CPROVER_ensures(u->_mutex == OLD(v->_mutex) && u->_is_locked == OLD(v->_is_locked) && \
                  v->_mutex == OLD(u->_mutex) && v->_is_locked == OLD(u->_is_locked));
SWAP_CONTRACT(frg_unique_lock_frgv_cmutex__swap, ul)
SWAP_CONTRACT(frg_shared_lock_frgv_cmutex__swap, sl)

/* guard() helpers */
void frg_guard__frgv_cmutex_contract(struct ul *__ret, struct frgv_cmutex *mutex)
__CPROVER_requires(__CPROVER_is_fresh(__ret, sizeof(*__ret)) && MX(mutex))
__CPROVER_assigns(__CPROVER_object_whole(__ret), __CPROVER_object_whole(mutex))
__CPROVER_ensures(__ret->_mutex == mutex && __ret->_is_locked == 1 && mutex->locks == OLD(mutex->locks) + 1 &&
                  mutex->unlocks == OLD(mutex->unlocks));

/* ---- the QS domain's own lock_guard (qs.hpp:15-45) */
void lg_ctor_contract(struct lg *this, struct frgv_cmutex *m)
__CPROVER_requires(__CPROVER_is_fresh(this, sizeof(*this)) && MX(m))
__CPROVER_assigns(__CPROVER_object_whole(this), __CPROVER_object_whole(m))
__CPROVER_ensures(this->_mutex == m && this->_locked == 1 && m->locks == OLD(m->locks) + 1 && m->unlocks == OLD(m->unlocks));
void lg_unlock_contract(struct lg *this)
__CPROVER_requires(__CPROVER_is_fresh(this, sizeof(*this)) && MX(this->_mutex) && this->_locked == 1)
__CPROVER_assigns(this->_locked, __CPROVER_object_whole(this->_mutex))
__CPROVER_ensures(!this->_locked && this->_mutex->unlocks == OLD(this->_mutex->unlocks) + 1 && this->_mutex->locks == OLD(this->_mutex->locks));
void lg_lock_contract(struct lg *this)
__CPROVER_requires(__CPROVER_is_fresh(this, sizeof(*this)) && MX(this->_mutex) && !this->_locked)
__CPROVER_assigns(this->_locked, __CPROVER_object_whole(this->_mutex))
__CPROVER_ensures(this->_locked == 1 && this->_mutex->locks == OLD(this->_mutex->locks) + 1 && this->_mutex->unlocks == OLD(this->_mutex->unlocks));
void lg_dtor_contract__owning(struct lg *this)
__CPROVER_requires(__CPROVER_is_fresh(this, sizeof(*this)) && MX(this->_mutex) && this->_locked == 1)
__CPROVER_assigns(this->_locked, __CPROVER_object_whole(this->_mutex))
__CPROVER_ensures(this->_mutex->unlocks == OLD(this->_mutex->unlocks) + 1 && this->_mutex->locks == OLD(this->_mutex->locks));
void lg_dtor_contract__released(struct lg *this)
__CPROVER_requires(__CPROVER_is_fresh(this, sizeof(*this)) && MX(this->_mutex) && !this->_locked)
__CPROVER_assigns()
__CPROVER_ensures(SAME_COUNTS(this->_mutex));

/* ---------------------------------------------------------------------------------------------
 * Spinlocks, thread-modular (rely/guarantee).  Ghost state, owned by the hooks in harness.c:
 *   frgv_tsl / frgv_ssl   the lock under verification
 *   frgv_phase            0 = before lock(), 1 = inside lock() (ticket taken / spinning), 2 = holding, 3 = inside unlock()
 *   frgv_my_ticket        value the fetch-add returned
 *   frgv_acq_seen         the access that observed "it is my turn" was acquire-ordered
 *   frgv_rel_seen         the releasing store was release-ordered
 */
void tsl_lock_contract(struct tsl *this)
__CPROVER_requires(__CPROVER_is_fresh(this, sizeof(*this)) && frgv_tsl == this && frgv_ssl == (struct ssl *)0 && frgv_phase == 0)
__CPROVER_assigns(__CPROVER_object_whole(this), frgv_phase, frgv_my_ticket, frgv_acq_seen)
/* returns only when it is this thread's turn, observed through an acquire load; the ticket came from an atomic RMW */
__CPROVER_ensures(frgv_phase == 2 && this->serving_ticket_ == frgv_my_ticket && frgv_acq_seen);

void tsl_unlock_contract(struct tsl *this)
__CPROVER_requires(__CPROVER_is_fresh(this, sizeof(*this)) && frgv_tsl == this && frgv_ssl == (struct ssl *)0 && frgv_phase == 2)
__CPROVER_requires(this->serving_ticket_ == frgv_my_ticket)
__CPROVER_assigns(__CPROVER_object_whole(this), frgv_phase, frgv_rel_seen)
/* hand-over: exactly the next ticket is served, through a release store; nobody else's ticket is skipped */
__CPROVER_ensures(this->serving_ticket_ == (uint32_t)(frgv_my_ticket + 1) && frgv_rel_seen && frgv_phase == 0);

_Bool tsl_is_locked_contract(struct tsl *this)
__CPROVER_requires(__CPROVER_is_fresh(this, sizeof(*this)) && frgv_tsl == (struct tsl *)0 && frgv_ssl == (struct ssl *)0)
__CPROVER_assigns()
__CPROVER_ensures(__CPROVER_return_value == (this->serving_ticket_ < this->next_ticket_));

void tsl_ctor_default_contract(struct tsl *this)
__CPROVER_requires(__CPROVER_is_fresh(this, sizeof(*this)))
__CPROVER_assigns(__CPROVER_object_whole(this))
__CPROVER_ensures(this->next_ticket_ == 0 && this->serving_ticket_ == 0);

void ssl_lock_contract(struct ssl *this)
__CPROVER_requires(__CPROVER_is_fresh(this, sizeof(*this)) && frgv_ssl == this && frgv_tsl == (struct tsl *)0 && frgv_phase == 0)
__CPROVER_assigns(__CPROVER_object_whole(this), frgv_phase, frgv_acq_seen)
/* returns only after an acquire exchange that read 'false' and wrote 'true' */
__CPROVER_ensures(frgv_phase == 2 && this->lock_ == 1 && frgv_acq_seen);

void ssl_unlock_contract(struct ssl *this)
__CPROVER_requires(__CPROVER_is_fresh(this, sizeof(*this)) && frgv_ssl == this && frgv_tsl == (struct tsl *)0 && frgv_phase == 2 && this->lock_ == 1)
__CPROVER_assigns(__CPROVER_object_whole(this), frgv_phase, frgv_rel_seen)
__CPROVER_ensures(this->lock_ == 0 && frgv_rel_seen && frgv_phase == 0);

_Bool ssl_is_locked_contract(struct ssl *this)
__CPROVER_requires(__CPROVER_is_fresh(this, sizeof(*this)) && frgv_ssl == (struct ssl *)0 && frgv_tsl == (struct tsl *)0 && (this->lock_ == 0 || this->lock_ == 1))
__CPROVER_assigns()
__CPROVER_ensures(__CPROVER_return_value == this->lock_);

void ssl_ctor_default_contract(struct ssl *this)
__CPROVER_requires(__CPROVER_is_fresh(this, sizeof(*this)))
__CPROVER_assigns(__CPROVER_object_whole(this))
__CPROVER_ensures(this->lock_ == 0);

#if 0   /* woven into the lowered code by frg2c */
//@ loop tsl_lock#0
__CPROVER_assigns(__CPROVER_object_whole(this), frgv_phase, frgv_acq_seen)
__CPROVER_loop_invariant(frgv_phase == 1 && frgv_tsl == this && frgv_ssl == (struct ssl *)0)
//@ end
//@ loop ssl_lock#0
__CPROVER_assigns(__CPROVER_object_whole(this), frgv_phase, frgv_acq_seen)
__CPROVER_loop_invariant(frgv_phase == 0 && frgv_ssl == this && frgv_tsl == (struct tsl *)0)
//@ end
//@ loop ssl_lock#1
__CPROVER_assigns(__CPROVER_object_whole(this))
__CPROVER_loop_invariant(frgv_phase == 0 && frgv_ssl == this && frgv_tsl == (struct tsl *)0)
//@ end
#endif
