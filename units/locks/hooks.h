/* Atomic-access hooks for the spinlock proofs (included before the prelude).
 * Thread-modular model: every atomic access of the lock word(s) is preceded by an arbitrary step
 * of the environment allowed by the RELY condition, and checked against the memory-order ROLE the
 * access plays. (ASSUMED: the rely describes all other threads; RMWs are atomic; release/acquire
 * message passing of the C++ memory model.) */
#ifndef FRGV_LOCK_HOOKS_H
#define FRGV_LOCK_HOOKS_H
void frgv_hook_load(void *p, int order);
void frgv_hook_store(void *p, unsigned long v, int order);
void frgv_hook_rmw(void *p, int order);
#define FRGV_ATOMIC_HOOK_LOAD(p, o) frgv_hook_load((void *)(p), (o))
#define FRGV_ATOMIC_HOOK_STORE(p, v, o) frgv_hook_store((void *)(p), (unsigned long)(v), (o))
#define FRGV_ATOMIC_HOOK_RMW(p, o) frgv_hook_rmw((void *)(p), (o))
#endif
