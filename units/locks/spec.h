/* ghost state of the spinlock proofs, visible to the woven loop contracts */
#ifndef FRGV_LOCKS_SPEC_H
#define FRGV_LOCKS_SPEC_H
struct tsl; struct ssl;
struct tsl *frgv_tsl;
struct ssl *frgv_ssl;
int frgv_phase;
uint32_t frgv_my_ticket;
_Bool frgv_acq_seen, frgv_rel_seen;
#endif
