UNIT = dict(
    name='locks',
    roots=['rec:ul', 'rec:sl', 'rec:lg', 'rec:tsl', 'rec:ssl', 'fn:frgv::frgv_force', 'fn:frg::*::swap', 'fn:frg::guard'],
    first_includes=['hooks.h'],
    pre_includes=['spec.h'],
    loop_contracts_required=['tsl_lock', 'ssl_lock'],
    contract_overrides={'tsl_lock': dict(loops=True, expect_kinds=['postcondition', 'loop invariant']),
                        'ssl_lock': dict(loops=True, expect_kinds=['postcondition', 'loop invariant'])},
    auto_harness_pre='struct tsl *t_; struct ssl *s_; frgv_tsl = t_; frgv_ssl = s_; frgv_phase = nondet_uint(); frgv_acq_seen = 0; frgv_rel_seen = 0; frgv_my_ticket = nondet_uint();',
    auto_harness=dict(cls='P', serves=['C12'], timeout=300),
    assumptions=['mutex type is correct (granted by the property); the counting stub records lock/unlock/lock_shared/unlock_shared calls',
                 'spinlock fairness / eventual acquisition is not decided (needs scheduler fairness)'],
)
