/* Harness support for the locks unit (per-contract harnesses are generated). */
unsigned frgv_assert_hook_hits;
#define FRGV_CANARY() __CPROVER_assert(0, "canary: end of harness reachable")
size_t nondet_size_t(void);
/* ASSUMED: the mutex type is correct; the stub only counts the calls that reach it */
void frgv_cmutex_lock(struct frgv_cmutex *this) { this->locks++; }
void frgv_cmutex_unlock(struct frgv_cmutex *this) { this->unlocks++; }
void frgv_cmutex_lock_shared(struct frgv_cmutex *this) { this->slocks++; }
void frgv_cmutex_unlock_shared(struct frgv_cmutex *this) { this->sunlocks++; }

/* ---- spinlock environment (RELY) and role checks (see hooks.h) */
unsigned int nondet_uint(void);
static _Bool frgv_order_acquire(int o) { return o == FRGV_MEMORY_ORDER_ACQUIRE || o == FRGV_MEMORY_ORDER_ACQ_REL || o == FRGV_MEMORY_ORDER_SEQ_CST; }
static _Bool frgv_order_release(int o) { return o == FRGV_MEMORY_ORDER_RELEASE || o == FRGV_MEMORY_ORDER_ACQ_REL || o == FRGV_MEMORY_ORDER_SEQ_CST; }

/* RELY, ticket lock: other threads only (a) take tickets (next_ticket_ grows) and (b) the thread whose ticket is
 * being served releases (serving_ticket_ += 1) - never this thread's turn away from it: serving never passes my ticket
 * while I wait, and does not move at all while I hold the lock. */
static void frgv_env_tsl(void)
{
	struct tsl *l = frgv_tsl;
	if (!l) return;
	l->next_ticket_ += nondet_uint() % 4;
	if (frgv_phase == 1) {
		uint32_t dist = (uint32_t)(frgv_my_ticket - l->serving_ticket_);
		uint32_t adv = nondet_uint();
		__CPROVER_assume(adv <= dist);
		l->serving_ticket_ += adv;
	}
}
/* RELY, test-and-set lock: while I do not hold it anybody may take it or release it; while I hold it nobody writes it */
static void frgv_env_ssl(void)
{
	struct ssl *l = frgv_ssl;
	if (!l) return;
	if (frgv_phase != 2 && frgv_phase != 3) l->lock_ = nondet_uint() & 1;
}
void frgv_hook_load(void *p, int order)
{
	if (frgv_tsl && p == (void *)&frgv_tsl->serving_ticket_) {
		frgv_env_tsl();
		if (frgv_phase == 1 && frgv_tsl->serving_ticket_ == frgv_my_ticket) {
			/* this load is the one that lets lock() return: it must be acquire */
			frgv_acq_seen = frgv_order_acquire(order);
			frgv_phase = 2;
		} else if (frgv_phase == 2) {
			frgv_phase = 3;     /* unlock() reading the current ticket: only the holder writes it, relaxed is fine */
		}
	}
	if (frgv_ssl && p == (void *)&frgv_ssl->lock_) frgv_env_ssl();
}
void frgv_hook_rmw(void *p, int order)
{
	if (frgv_tsl && p == (void *)&frgv_tsl->next_ticket_) {
		frgv_env_tsl();
		__CPROVER_assert(frgv_phase == 0, "ticket lock: a second ticket is taken while one is pending");
		frgv_my_ticket = frgv_tsl->next_ticket_;      /* value the atomic fetch-add returns */
		frgv_phase = 1;
	}
	if (frgv_ssl && p == (void *)&frgv_ssl->lock_) {
		frgv_env_ssl();
		if (frgv_ssl->lock_ == 0) {                   /* this exchange acquires the lock */
			frgv_acq_seen = frgv_order_acquire(order);
			frgv_phase = 2;
		}
	}
}
void frgv_hook_store(void *p, unsigned long v, int order)
{
	if (frgv_tsl && p == (void *)&frgv_tsl->serving_ticket_) {
		__CPROVER_assert(frgv_phase == 3 || frgv_phase == 2, "ticket lock: serving_ticket_ written by a thread that does not hold the lock");
		frgv_rel_seen = frgv_order_release(order);
		frgv_phase = 0;
	}
	if (frgv_ssl && p == (void *)&frgv_ssl->lock_) {
		__CPROVER_assert(frgv_phase == 2, "spinlock: lock_ stored by a thread that does not hold the lock");
		frgv_rel_seen = frgv_order_release(order);
		frgv_phase = 0;
	}
}
