#!/bin/bash
# Run the thorough tier of every claimed check once (used through 'vp run' to validate that thorough commands finish and exit 0).
cd "$(dirname "$0")"
for p in $(python3 -c "import json; print(' '.join(c['property_id'] for c in json.load(open('MANIFEST.json'))['checks']))"); do
  /usr/bin/time -f "$p %es" python3 vp.py check $p --tier thorough 2>&1 | tail -2
done
